"""C13 — CCSDS OPM / OEM / OMM / TDM messages round-trip in KVN and XML.

Deviation-bounded object construction (DESIGN.md §4 C13): for every message
type a minimal base object and a list of independent dimensions (frame, time
scale, covariance variant, maneuvers, user-defined fields, number of points,
interpolation, ...).  EVERY object that deviates from the base in at most
`bound` dimensions is built, written with the real `beyond.io.ccsds.dumps` in
both encodings (format chosen by argument and by configuration default), read
back with the real `loads`, and compared with the independent semantic model
`mc/ref/ccsds_cmp.py`.
"""

import itertools
import re

PROPERTY = "C13"
CLAIM = dict(
    text="Every OPM/OEM/OMM/TDM content that differs from a minimal message in at most 2 (quick) / 3 (thorough) of the listed "
    "dimensions (10 Earth frames + a Moon-centred frame, 6 time scales, 5 covariance variants, impulsive/continuous maneuvers in None/QSW/TNW frames with "
    "and without comment (plain, with KVN/XML syntax characters), date_pos start/median/stop, foreign time scale, a "
    "6-maneuver sequence mixing kinds, frames, comments and date_pos, user-defined fields (0-5; underscored names, names "
    "sharing a last word, values with '=', '[', '<', '&'), 1-9 ephemeris points with 0/1/all covariances or a per-point "
    "pattern of covariance frames, interpolation settings, the documented dumps() keyword arguments (name=, cospar_id=, both, originator=, kep=False), "
    "one or two ephemerides (second one with its own scale, frame, "
    "interpolation, covariances), TLE orbits from text or built by hand (angles at the 360 deg wrap, classification), "
    "measurement type sets incl. single angle types, 1-5 observations, 2/3-leg paths with 2 or 3 participants, two "
    "paths with equal or different types) is written by the real writer in KVN and XML, read by the real reader and "
    "compared field by field with an independent description of the original: loads(dumps(x)) ~ x, both encodings decode "
    "to the same object, what was read can be written again in both encodings (same text except CREATION_DATE) and the "
    "configured default format is honoured. Exhaustive inside the bound, so single-element lists, aliases written but not "
    "read back and fields only one encoding carries cannot hide as they do behind the repository's one stored fixture.",
    note="Trusts: the comparison model (self-tested on synthetic descriptions), the library's time-scale conversion for the "
    "instant of maneuver epochs given in a foreign scale (C03), attribute access on the library objects. EOP policy 'pass' "
    "(TAI-UTC = 0 in this configuration: scale LABELS are still distinguished, and TT/GPS/TDB offsets are non-zero).",
    technique="exhaustive deviation-bounded product over message contents and encodings on the real writer/reader vs. independent semantic comparison model",
)
RULE = (
    "cases = (message type, set of <= bound deviations from the base object, configured default format); dependent "
    "dimensions (maneuver frame/comment/scale without a maneuver, covariance frame without a covariance) are not "
    "enumerated alone since they build the same object. Each case runs 2 dumps + reloads, the KVN-vs-XML comparison, 4 "
    "re-dumps (2 text identities, 2 cross-encoding reloads) and the default-format dump. non-trivial = the object carries "
    "at least one deviation from the minimal message; distinct by (type, deviation set, configuration)"
)
BOUNDS = {
    "quick": "all objects with <= 2 simultaneous deviations (config default unset); <= 1 deviation under ccsds_default_format = kvn / xml",
    "thorough": "all objects with <= 3 simultaneous deviations (config default unset); <= 2 deviations under ccsds_default_format = kvn / xml",
}
ASSUMPTIONS = [
    "a missing OBJECT_NAME / OBJECT_ID is equivalent to the placeholder 'N/A' the writer must put in the mandatory field",
    "a list of one ephemeris and the ephemeris itself, and one MeasureSet and the list of its per-path segments, are the same content "
    "(container type is compared only between the two encodings)",
    "the class (Orbit vs StateVector), the form and the propagator are not part of an OPM; compared only between the two encodings",
    "maneuver epochs given in another scale than the state's can only keep their INSTANT (one TIME_SYSTEM per message); all other epochs keep scale and value",
    "tolerances: 1 us, 1 mm, 1 mm/s from the property text; one unit of the last written digit elsewhere (mc/ref/ccsds_cmp.py TOL)",
    "the degree of a LINEAR interpolation is not an independent setting",
    "dumps(x, name=N, cospar_id=I) describes x under the name N / identifier I (all segments of an OEM); originator= and kep= are "
    "writer options that only change the header / the optional osculating-element block",
]
NOT_COVERED = (
    "centres other than the Earth and the Moon (need JPL kernels), frames beyond the 10 built-ins and the analytical Moon frame, more than 3 simultaneous deviations, "
    "OEM acceleration columns, hand-written messages (optional keywords, day-of-year dates, comments in odd places), "
    "TLE ephemeris type, KeplerianImpulsiveMan (no delta-v before it is applied), PVT measurements, user-defined values "
    "that look like '<number> [unit]', leading/trailing blanks in free text, RightAscension/Declination measurements (not defined by the library), purity of dumps() w.r.t. its argument"
)

FMTS = ("kvn", "xml")
DEG = 3.141592653589793 / 180.0
REVDAY = 2 * 3.141592653589793 / 86400.0
FRAMES = ["EME2000", "MOD", "TOD", "TEME", "PEF", "ITRF", "TIRF", "CIRF", "GCRF", "G50"]
SCALES = ["UTC", "TAI", "TT", "GPS", "UT1", "TDB"]
COVF = ["QSW", "TNW", "other", "other-set"]
# OEM: covariance frame per point (None = no covariance on that point): consecutive blocks that differ in
# their optional COV_REF_FRAME line, in both orders, and a block after a gap
COVPAT = {
    "tnw-state": ["TNW", "state"],
    "qsw-tnw-state": ["QSW", "TNW", "state-diag"],
    "state-qsw": ["state", "QSW"],
    "other-state-tnw": ["other", "state", "TNW"],
    "gap-qsw-state": [None, "QSW", "state"],
}

# documented keyword arguments of dumps() (writer options): each alone, name and identifier together
KWV = ["name", "id", "name+id", "originator"]
KW_NAME, KW_ID, KW_ORIGINATOR = "OVERRIDE NAME", "1999-999Z", "VERIF LAB"

# dimension -> deviation values (the base value is implicit); "needs": the dimension only changes the object
# when the named dimension deviates too
DIMS = {
    "opm": {
        "cls": ["orbit"],
        "form": ["keplerian"],
        "state": ["hyperbolic", "axis"],
        "frame": FRAMES[1:] + ["Moon"],
        "scale": SCALES[1:],
        "cov": ["state"],
        "covframe": COVF,
        "man": ["imp", "cont", "both", "mix"],
        "manframe": ["QSW", "TNW"],
        "mancomment": ["yes", "special", "word", "bracket1"],
        "manpos": ["median", "stop"],
        "manscale": ["other"],
        "ud": [1, 2, "keys", "values", "empty"],
        "kep": ["off"],
        "name": ["absent", "bracket", "bracket1", "empty"],
        "kw": KWV,
    },
    "oem": {
        "frame": FRAMES[1:] + ["Moon"],
        "scale": SCALES[1:],
        "points": [1, 2, 9],
        "ncov": ["one", "all"],
        "covframe": COVF,
        "covpat": list(COVPAT),
        "interp": ["linear", "lagrange2", "lagrange11"],
        "count": ["two", "list1", "two-mixed"],
        "name": ["absent"],
        "form": ["keplerian"],
        "kw": KWV,
    },
    "omm": {
        "source": ["manual"],
        "tle": ["goes", "wrap", "classified"],
        "scale": ["TAI"],
        "cov": ["state"],
        "covframe": COVF,
        "ud": [1, 2, "keys", "values", "empty"],
        "name": ["empty", "bracket", "bracket1"],
        "kw": KWV,
    },
    "tdm": {
        "types": ["azel", "doppler", "razel", "all", "az", "el"],
        "obs": [1, 5],
        "path": ["2leg", "3leg-2sta"],
        "paths": ["two-seq", "two-mixed", "two-types"],
        "scale": SCALES[1:],
        "kw": ["originator"],
    },
}
NEEDS = {
    ("opm", "covframe"): "cov",
    ("opm", "manframe"): "man",
    ("opm", "mancomment"): "man",
    ("opm", "manscale"): "man",
    ("opm", "manpos"): "man",
    ("oem", "covframe"): "ncov",
    ("omm", "covframe"): "cov",
}
# dimensions whose VALUE is not part of a signature label (many values, one behaviour)
COARSE = {"frame", "scale", "man", "types", "paths", "covpat", "manpos", "kw"}


def enumerate_specs(mtype, bound):
    dims = DIMS[mtype]
    names = list(dims)
    out = []
    for k in range(bound + 1):
        for combo in itertools.combinations(names, k):
            if any(NEEDS.get((mtype, d)) not in (None,) + combo for d in combo):
                continue
            for vals in itertools.product(*(dims[d] for d in combo)):
                dev = dict(zip(combo, vals))
                if not same_object_as_smaller(mtype, dev):
                    out.append(dev)
    return out


def same_object_as_smaller(mtype, dev):
    """Combinations that build the same object as a case with fewer deviations (not enumerated)."""
    if mtype == "opm":
        if dev.get("man") == "mix" and any(k in dev for k in ("manframe", "mancomment", "manpos")):
            return True  # the mixed pattern fixes frame, comment and date_pos of each maneuver itself
        if dev.get("man") == "imp" and "manpos" in dev:
            return True  # an impulsive maneuver has no date_pos
    if mtype == "oem" and "covpat" in dev and ("ncov" in dev or "covframe" in dev):
        return True  # the per-point pattern replaces the uniform covariance dimensions
    return False


def spec_key(mtype, dev, cfgfmt):
    return (mtype, tuple(sorted((k, str(v)) for k, v in dev.items())), cfgfmt or "-")


# ---------------------------------------------------------------------------
# construction of the objects (fresh objects on every call: writers may touch their argument)

T0_D, T0_S = 55256, 43200.1234563  # 2010-03-01T12:00:00.1234563 (0.3 us below the written resolution)
LEO = [6878123.4564, 1200456.7891, -340987.6543, -900.12345, 5200.45678, 5400.98765]
HYP = [7000123.4564, 1200.7891, -987.6543, -10.12345, 12000.45678, 1000.98765]
KEP = [7000123.4564, 0.0123, 0.9, 0.3, 0.2, 0.1]
COV0 = [
    [3.331349476038534e2, 4.618927349220216e2, -3.070007847730449e2, -3.349365033922630e-1, -2.211832501084875e-1, -3.041346050686871e-1],
    [4.618927349220216e2, 6.782421679971363e2, -4.221234189514228e2, -4.686084221046758e-1, -2.864186892102733e-1, -4.989496988610662e-1],
    [-3.070007847730449e2, -4.221234189514228e2, 3.231931992380369e2, 2.484949578400095e-1, 1.798098699846038e-1, 3.540310904497689e-1],
    [-3.349365033922630e-1, -4.686084221046758e-1, 2.484949578400095e-1, 4.296022805587290e-4, 2.608899201686016e-4, 1.869263192954590e-4],
    [-2.211832501084875e-1, -2.864186892102733e-1, 1.798098699846038e-1, 2.608899201686016e-4, 1.767514756338532e-4, 1.008862586240695e-4],
    [-3.041346050686871e-1, -4.989496988610662e-1, 3.540310904497689e-1, 1.869263192954590e-4, 1.008862586240695e-4, 6.224444338635500e-4],
]
NAME_BRACKET = "GOES 9 [P]"  # the object name of the Blue Book example TLE
NAME_BRACKET1 = "STARLINK-1008 [DTC]"  # a single blank-free word followed by a bracketed suffix
ID_BRACKET1 = "2019-074A [DEB]"
UD = {
    "1": {"FOO": "foo enters"},
    "2": {"FOO": "foo enters", "BAR": "a bar"},
    # names with underscores, two names sharing their last word, one name being the tail of another
    "keys": {"EARTH_MODEL": "EGM-96", "OD_RMS": "1.5", "SOLVE_RMS": "2.5", "RMS": "3.5", "A_B_C": "abc"},
    # free text with the characters the KVN / XML syntaxes use
    "values": {"NOTE": "a = b", "REF": "see [1] p.3", "CMP": "x<y & z>0", "QUOTE": "it's \"ok\"",
               "TAG": NAME_BRACKET1, "VER": "v2[beta]"},
    "empty": {},
}
AXIS = [7000123.4564, 0.0, -0.0004, 0.0, 7546.05345, 0.0]  # zeros and a value that rounds to -0.000000
COMMENTS = {
    "yes": "Maneuver 1",
    "special": "burn 2: dv = 1.5 [m/s] <nominal> & more",
    "word": "as in the COMMENT of burn 1",
    "bracket1": "ISS [ZARYA]",
}
# (kind, seconds after the epoch, frame, comment, date_pos, thrust given as acceleration)
MIX = [
    ("cont", 600.25, "TNW", "start-defined burn", "start", False),
    ("imp", 1200.000001, "QSW", None, None, False),
    ("cont", 2400.5, None, "centred on the apsis", "median", False),
    ("imp", 3600.5, "TNW", "trim", None, False),
    ("cont", 4800.75, "QSW", None, "stop", True),
    ("imp", 5400.0, None, None, None, False),
]
TLE_ISS = """ISS (ZARYA)
1 25544U 98067A   08264.51782528 -.00002182  00000-0 -11606-4 0  2927
2 25544  51.6416 247.4627 0006703 130.5360 325.0288 15.72125391563537"""
TLE_GOES = """GOES 9
1 23581U 95025A   07064.44075725 -.00000113  00000-0  10000-3 0  9250
2 23581   3.0539  81.7939 0005013 249.2363 150.1602  1.00273272 43169"""


def _date(scale, dt=0.0):
    from beyond.dates import Date

    s = T0_S + dt
    return Date(T0_D + int(s // 86400), s % 86400.0, scale=scale)


def _other_scale(scale):
    # a scale with a fixed, non-zero offset from the message's scale under every EOP configuration
    return "TT" if scale not in ("TT", "TDB") else "GPS"


def _other_frame(frame):
    return "MOD" if frame != "MOD" else "EME2000"


def _attach_cov(sv, variant, factor=1.0):
    """variant: state | QSW | TNW | other | other-set"""
    import numpy as np
    from beyond.orbits.cov import Cov
    from beyond.frames.frames import get_frame

    values = np.array(COV0) * factor
    if variant == "state-diag":
        values = np.diag(np.diag(values))  # exact zeros off the diagonal
        variant = "state"
    if variant == "state":
        sv.cov = Cov(sv, values, sv.frame)
    elif variant in ("QSW", "TNW"):
        sv.cov = Cov(sv, values, variant)
    elif variant == "other":
        sv.cov = Cov(sv, values, get_frame(_other_frame(sv.frame.name)))
    elif variant == "other-set":
        sv.cov = Cov(sv, values, sv.frame)
        sv.cov.frame = _other_frame(sv.frame.name)
    else:
        raise ValueError(variant)


def _cov_variant(dev, key):
    if key not in dev:
        return None
    return dev.get("covframe", "state")


def _maneuvers(dev, scale):
    from beyond.dates import timedelta
    from beyond.orbits.man import ImpulsiveMan, ContinuousMan

    kind = dev["man"]
    if kind == "mix":
        specs = MIX
    else:
        frame = dev.get("manframe")
        c = COMMENTS.get(dev.get("mancomment"))
        pos = dev.get("manpos", "start")
        specs = []
        if kind in ("imp", "both"):
            specs.append(("imp", 100.000001, frame, c, None, False))
        if kind in ("cont", "both"):
            specs.append(("cont", 2000.5, frame, (c + " (2)" if kind == "both" else c) if c else None, pos, False))
    dvs = [[1.2344, -0.5003, 0.0074], [-2.7184, 0.0004, 31.4159], [0.0, -3.0006, 0.0], [12.3456, 0.0, -0.0004]]
    out = []
    for k, (mk, dt, frame, comment, pos, accel) in enumerate(specs):
        d = _date(scale, dt)
        if dev.get("manscale"):
            d = d.change_scale(_other_scale(scale))
        dv = dvs[k % len(dvs)]
        if mk == "imp":
            out.append(ImpulsiveMan(d, dv, frame=frame, comment=comment))
        else:
            dur = timedelta(seconds=180.5004)
            if accel:
                out.append(ContinuousMan(d, dur, accel=[x / 180.5004 for x in dv], date_pos=pos, frame=frame, comment=comment))
            else:
                out.append(ContinuousMan(d, dur, dv=dv, date_pos=pos, frame=frame, comment=comment))
    return out


def build_opm(dev):
    from beyond.orbits import StateVector, Orbit

    scale = dev.get("scale", "UTC")
    frame = dev.get("frame", "EME2000")
    date = _date(scale)
    if dev.get("form") == "keplerian":
        coords, form = list(KEP), "keplerian"
        if dev.get("state") == "hyperbolic":
            coords[0], coords[1] = -25000123.4564, 1.3
    else:
        coords, form = list({"hyperbolic": HYP, "axis": AXIS}.get(dev.get("state"), LEO)), "cartesian"
    names = {"bracket": NAME_BRACKET, "bracket1": NAME_BRACKET1, "empty": ""}
    kw = {} if dev.get("name") == "absent" else dict(name=names.get(dev.get("name"), "SAT 1"),
                                                      cospar_id=ID_BRACKET1 if dev.get("name") == "bracket1" else "2010-001A")
    if dev.get("cls") == "orbit":
        sv = Orbit(coords, date, form, frame, "Kepler", **kw)
    else:
        sv = StateVector(coords, date, form, frame, **kw)
    cv = _cov_variant(dev, "cov")
    if cv:
        _attach_cov(sv, cv)
    if "man" in dev:
        sv.maneuvers = _maneuvers(dev, scale)
    if "ud" in dev:
        sv._data["ccsds_user_defined"] = dict(UD[str(dev["ud"])])
    return sv


def _points(n, scale, frame, form, t_off=0.0, with_names=None):
    from beyond.orbits import StateVector
    from beyond.constants import Earth
    from mc.ref import twobody

    mu = float(Earth.mu)
    out = []
    for k in range(n):
        dt = t_off + 60.000001 * k
        rv = twobody.propagate_uv(LEO, dt, mu)
        if form == "keplerian":
            e = twobody.cart_to_kep(rv, mu)
            coords = [e["a"], e["e"], e["i"], e["Om"], e["w"], e["nu"]]
        else:
            coords = [float(x) for x in rv]
        out.append(StateVector(coords, _date(scale, dt), form, frame, **(with_names or {})))
    return out


def build_oem(dev):
    from beyond.orbits import Ephem

    scale = dev.get("scale", "UTC")
    frame = dev.get("frame", "EME2000")
    form = "keplerian" if dev.get("form") == "keplerian" else "cartesian"
    n = dev.get("points", 3)
    pts = _points(n, scale, frame, form)
    if "ncov" in dev:
        variant = dev.get("covframe", "state")
        which = [min(1, n - 1)] if dev["ncov"] == "one" else list(range(n))
        for k in which:
            _attach_cov(pts[k], variant, 1.0 + 0.125 * k)
    if "covpat" in dev:
        for k, variant in enumerate(COVPAT[dev["covpat"]][:n]):
            if variant:
                _attach_cov(pts[k], variant, 1.0 + 0.125 * k)
    interp = dev.get("interp")
    if interp == "linear":
        eph = Ephem(pts, method="linear")
    elif interp in ("lagrange2", "lagrange11"):
        eph = Ephem(pts, method="lagrange", order=int(interp[8:]))
    else:
        eph = Ephem(pts)
    if dev.get("name") != "absent":
        eph.name = "SAT 1"
        eph.cospar_id = "2010-001A"
    if dev.get("count") == "two":
        eph2 = Ephem(_points(2, scale, "MOD" if frame != "MOD" else "TOD", "cartesian", t_off=7200.5), method="linear")
        if dev.get("name") != "absent":
            eph2.name = "SAT 2"
            eph2.cospar_id = "2011-002B"
        return [eph, eph2]
    if dev.get("count") == "two-mixed":
        # second segment with its own time scale, frame, interpolation and covariances
        scale2 = "TAI" if scale != "TAI" else "UTC"
        pts2 = _points(3, scale2, "TOD" if frame != "TOD" else "MOD", "cartesian", t_off=7200.5)
        _attach_cov(pts2[0], "state", 2.0)
        _attach_cov(pts2[1], "QSW", 3.0)
        eph2 = Ephem(pts2, method="lagrange", order=5)
        if dev.get("name") != "absent":
            eph2.name = "SAT 2"
            eph2.cospar_id = "2011-002B"
        return [eph, eph2]
    if dev.get("count") == "list1":
        return [eph]
    return eph


def build_omm(dev):
    from beyond.io.tle import Tle
    from beyond.orbits import Orbit

    text = TLE_GOES if dev.get("tle") == "goes" else TLE_ISS
    if dev.get("tle") == "classified":
        text = text.replace("25544U", "25544C")  # letters do not enter the checksum
    if dev.get("name") == "empty":
        text = text.split("\n", 1)[1]  # two-line form: no name
    elif dev.get("name") in ("bracket", "bracket1"):
        text = (NAME_BRACKET if dev["name"] == "bracket" else NAME_BRACKET1) + "\n" + text.split("\n", 1)[1]
    orb = Tle(text).orbit()
    if dev.get("source") == "manual":
        d = orb._data
        el = [float(x) for x in orb]
        # off the written grid by 0.3 unit of the last written digit (i, Omega, e, omega, M [1e-4 deg, 1e-7], n [1e-8 rev/day])
        q = 0.3
        el = [el[0] + q * 1e-4 * DEG, el[1] + q * 1e-4 * DEG, el[2] + q * 1e-7, el[3] - q * 1e-4 * DEG, el[4] + q * 1e-4 * DEG,
              el[5] + q * 1e-8 * REVDAY]
        d = dict(d, bstar=d["bstar"] + q * 1e-9, ndot=d["ndot"] + q * 2e-8, ndotdot=d["ndotdot"] + q * 0.6)
        orb = Orbit(
            el, orb.date, "TLE", "TEME", "Sgp4",
            bstar=d["bstar"], ndot=d["ndot"], ndotdot=d["ndotdot"], norad_id=d["norad_id"], element_nb=d["element_nb"],
            revolutions=d["revolutions"], name=d["name"], cospar_id=d["cospar_id"],
            classification_type=d["tle"].classification, ephemeris_type=d["tle"].type,
        )
    if dev.get("name") == "bracket1":
        orb.cospar_id = ID_BRACKET1
    if dev.get("tle") == "wrap":
        # angles that round to 360.0000 / 0.0000 at the written resolution
        orb[1] = 359.99996 * DEG
        orb[4] = 0.00004 * DEG
    if dev.get("scale") == "TAI":
        orb.date = orb.date.change_scale("TAI")
    cv = _cov_variant(dev, "cov")
    if cv:
        _attach_cov(orb, cv)
    if "ud" in dev:
        orb._data["ccsds_user_defined"] = dict(UD[str(dev["ud"])])
    return orb


AZ = [0.5, 3.0, 6.28313, -1.0, 2.0]  # theta; written as -deg % 360 with 0.01 deg (third one wraps to 0.00)
EL = [0.1, 0.7, -0.00003, 1.2, 0.3]
RG = [1600123.4564, 1712345.6781, 1833333.3333, 1954321.0004, 2075000.4996]
DP = [-3000.1234564, -1500.5, 0.0000004, 1500.25, 2999.9999996]
TYPES = {"az": ["Azimut"], "el": ["Elevation"], "range": ["Range"], "azel": ["Azimut", "Elevation"], "doppler": ["Doppler"], "razel": ["Range", "Azimut", "Elevation"],
         "all": ["Range", "Azimut", "Elevation", "Doppler"]}


def build_tdm(dev):
    from beyond.utils import measures as M

    scale = dev.get("scale", "UTC")
    types = TYPES[dev.get("types", "range")]
    nobs = dev.get("obs", 2)
    leg = dev.get("path")
    p1 = ["Toulouse", "1998-067A"] + ([] if leg == "2leg" else ["Kourou"] if leg == "3leg-2sta" else ["Toulouse"])
    p2 = ["Kourou", "1998-067A"] + ([] if leg == "2leg" else ["Kourou"])
    vals = {"Range": RG, "Azimut": AZ, "Elevation": EL, "Doppler": DP}

    def one(path, k, shift, tnames):
        out = []
        for tname in tnames:
            v = vals[tname][(k + shift) % 5]
            out.append(getattr(M, tname)(path, _date(scale, 5.000001 * k), v))
        return out

    items = []
    mode = dev.get("paths")
    # "two-types": the second path carries other measurement types than the first one
    types2 = types if mode != "two-types" else (["Azimut", "Elevation"] if "Range" in types else ["Range"])
    if mode == "two-mixed":
        for k in range(nobs):
            items += one(p1, k, 0, types) + one(p2, k, 2, types)
    else:
        for k in range(nobs):
            items += one(p1, k, 0, types)
        if mode in ("two-seq", "two-types"):
            for k in range(nobs):
                items += one(p2, k, 2, types2)
    return M.MeasureSet(items)


BUILD = {"opm": build_opm, "oem": build_oem, "omm": build_omm, "tdm": build_tdm}


def dump_kwargs(mtype, dev):
    kw = {"kep": False} if mtype == "opm" and dev.get("kep") == "off" else {}
    opt = dev.get("kw", "")
    if "name" in opt:
        kw["name"] = KW_NAME
    if "id" in opt:
        kw["cospar_id"] = KW_ID
    if opt == "originator":
        kw["originator"] = KW_ORIGINATOR
    return kw


def apply_kwargs(desc, kw):
    """The object a message written with name= / cospar_id= describes: the same one under the overriding name /
    identifier (every segment of an OEM gets them)."""
    targets = [desc["state"]] if desc["kind"] == "state-message" else desc.get("ephems", [])
    for t in targets:
        if "name" in kw:
            t["name"] = kw["name"]
        if "cospar_id" in kw:
            t["id"] = kw["cospar_id"]
    return desc


# ---------------------------------------------------------------------------
# evaluation of one case (pure: returns findings, records counters through `rec`)


class _NullRec:
    def margin(self, name, value, tol):
        return value <= tol

    def trans(self, n=1):
        pass

    def ev(self, key=None):
        pass

    def state(self, key):
        pass

    def outcome(self, label):
        pass


_HEX = re.compile(r"0x[0-9a-fA-F]+")


def _exc(e):
    return _HEX.sub("0x?", f"{type(e).__name__}: {e}")[:160]


CLAUSES = {
    "dump": "the object can be written in this encoding",
    "format": "the encoding is the one selected by argument / configuration",
    "header": "the header carries the originator given to dumps()",
    "load": "what was written can be read back",
    "reload": "reading back restores the same object",
    "kvn-vs-xml": "KVN and XML encodings of the same object decode to the same object",
    "redump": "anything that was read can be written again",
    "redump-text": "re-writing what was read gives the same text except CREATION_DATE",
        "default-format": "the default format is the configured one (KVN when unset) and gives the same text as the explicit argument",
}
FIELD_CLAUSE = {
    "epoch": "epoch(s) to the microsecond in the same time scale",
    "frame": "frame and centre",
    "name": "name and identifier",
    "id": "name and identifier",
    "position": "coordinates to the written precision (1 mm, 1 mm/s)",
    "velocity": "coordinates to the written precision (1 mm, 1 mm/s)",
    "tle": "mean elements to the written precision and the identifiers of the element set",
    "cov": "covariance (values and frame, incl. RSW/TNW)",
    "maneuver": "maneuvers (epoch, duration, delta-v, frame, comment)",
    "interpolation": "interpolation settings",
    "user_defined": "user-defined fields",
    "measure": "measurement type / path / date / value",
    "points": "1..N ephemeris points",
}


def _base_field(field):
    for suffix in (".instant", ".scale", ".center", ".type"):
        if field.endswith(suffix):
            return field[: -len(suffix)]
    return field


def _first_keyword(line):
    if line is None:
        return "missing-line"
    s = line.strip()
    m = re.match(r"<([A-Za-z_0-9]+)", s)
    if m:
        return m.group(1)
    m = re.match(r"([A-Z_0-9]+)\s*=", s)
    if m:
        return m.group(1)
    return "data-line"


def evaluate(mtype, dev, cfgfmt, rec):
    """All checks of one case.  Returns a list of findings (dicts with stage, key, fmt, expected, observed, detail)."""
    from beyond.io.ccsds import dumps, loads
    from mc.ref import ccsds_cmp as C

    F = []

    def found(stage, key, fmt, expected=None, observed=None, detail=""):
        F.append(dict(stage=stage, key=key, fmt=fmt, expected=expected, observed=observed, detail=detail))

    def diffs_to(stage, fmt, diffs, skip=()):
        n = 0
        for d in diffs:
            key = f"{d.field}:{d.cls}"
            if _base_field(d.field) in skip:  # already reported against the original: one finding per field
                continue
            n += 1
            found(stage, key, fmt, d.expected, d.observed, f"{d.field} {d.where}")
        return n

    def margin(name, value, tol):
        return rec.margin(f"{name} [{C.TOL[name][1]}]", value, tol)

    build = BUILD[mtype]
    kw = dump_kwargs(mtype, dev)
    exp = C.describe(build(dev))
    if exp["kind"] == "unknown":
        raise RuntimeError("harness built an object the comparison model does not know")
    exp = apply_kwargs(exp, kw)
    originator = kw.get("originator", "N/A")
    rekw = {"originator": kw["originator"]} if "originator" in kw else {}  # writer option, not content
    sk = spec_key(mtype, dev, cfgfmt)
    rec.state(sk)

    txt, desc, reported = {}, {}, {}
    for fmt in FMTS:
        reported[fmt] = set()
        rec.trans()
        try:
            t1 = dumps(build(dev), fmt=fmt, **kw)
        except Exception as e:
            found("dump", "raises:" + _exc(e), fmt, "text", _exc(e))
            rec.outcome(f"{mtype}/{fmt}/dump-raises")
            continue
        got = C.text_format(t1)
        if got != fmt:
            found("format", f"{fmt}->{got}", fmt, fmt, got, "dumps(fmt=...) produced the other encoding")
            continue
        txt[fmt] = t1
        got = C.header_field(t1, "ORIGINATOR")
        if got != originator:
            found("header", "originator:" + ("ignored" if got == "N/A" else "changed"), fmt, originator, got)
        rec.trans()
        try:
            y = loads(t1)
        except Exception as e:
            found("load", "raises:" + _exc(e), fmt, "object", _exc(e))
            rec.outcome(f"{mtype}/{fmt}/load-raises")
            continue
        d = C.describe(y)
        desc[fmt] = d
        rec.state(sk + (fmt, "reloaded"))
        diffs = C.compare(exp, d, margin=margin)
        reported[fmt] = set(_base_field(x.field) for x in diffs)
        n = diffs_to("reload", fmt, diffs)
        rec.ev(sk + (fmt, "reload") if dev else None)
        rec.outcome(f"{mtype}/{fmt}/reload-" + ("ok" if not n else "differs"))

    # both encodings decode to the same object
    if len(desc) == 2:
        already = reported["kvn"] | reported["xml"]
        diffs = C.compare(desc["kvn"], desc["xml"], margin=None, strict=True)
        n = diffs_to("kvn-vs-xml", "kvn+xml", diffs, skip=already)
        rec.ev(sk + ("kvn-vs-xml",) if dev else None)
        rec.outcome(f"{mtype}/kvn-vs-xml-" + ("ok" if not n else "differs"))

    # anything that was read can be written again, in both encodings
    for f in FMTS:
        if f not in desc:
            continue
        for g in FMTS:
            rec.trans(2)
            y = loads(txt[f])  # fresh object for every writer
            try:
                t2 = dumps(y, fmt=g, **rekw)
            except Exception as e:
                found("redump", "raises:" + _exc(e), g, "text", _exc(e), f"read from {f}, written as {g}")
                rec.outcome(f"{mtype}/redump-{g}-raises")
                continue
            rec.state(sk + (f, g, "rewritten"))
            if g == f:
                # the optional osculating-element block of an OPM is derived data (recomputed from the rounded
                # state, ignored by the reader, switched by the writer option `kep`): not part of the identity
                td = C.text_diff(C.strip_derived(txt[f]), C.strip_derived(t2))
                if td and reported[f]:
                    td = []  # the re-read object already differs from the original (reported): its text must differ too
                if td:
                    found("redump-text", "line:" + _first_keyword(td[0][1] if td[0][1] is not None else td[0][2]), f, [x[1] for x in td], [x[2] for x in td],
                          f"first differing line {td[0][0]}")
                rec.ev(sk + (f, "redump-text") if dev else None)
                rec.outcome(f"{mtype}/{f}/redump-text-" + ("same" if not td else "differs"))
            else:
                rec.trans()
                try:
                    z = loads(t2)
                except Exception as e:
                    # a reader failure on a text of encoding g: the same finding as a failure on the direct text
                    if not any(x["stage"] == "load" and x["fmt"] == g and x["key"] == "raises:" + _exc(e) for x in F):
                        found("load", "raises:" + _exc(e), g, "object", _exc(e), f"text obtained by reading {f} and writing {g}")
                    continue
                already = reported["kvn"] | reported["xml"]
                diffs = C.compare(exp, C.describe(z), margin=margin)
                # the object read from f is (field by field, as far as not reported) the original, so a field lost
                # here is lost by the g round trip: same finding as on the direct g text (which an earlier
                # failure may have masked in this case)
                n = diffs_to("reload", g, [x for x in diffs if not any(
                    y["stage"] == "reload" and y["fmt"] == g and y["key"] == f"{x.field}:{x.cls}" for y in F)], skip=already)
                rec.ev(sk + (f, g, "cross") if dev else None)
                rec.outcome(f"{mtype}/cross-{f}-{g}-" + ("ok" if not n else "differs"))

    # default format: by configuration, KVN when nothing is configured
    want = cfgfmt or "kvn"
    rec.trans()
    try:
        t0 = dumps(build(dev), **kw)
    except Exception as e:
        t0 = None
        if want in txt:  # otherwise already reported as dump failure of that encoding
            found("default-format", "raises:" + _exc(e), want, "text", _exc(e))
    if t0 is not None:
        got = C.text_format(t0)
        if got != want:
            found("default-format", f"wrong-format:{want}->{got}", want, want, got, f"config ccsds_default_format={cfgfmt!r}")
        elif want in txt:
            td = C.text_diff(txt[want], t0)
            if td:
                found("default-format", "text-differs", want, [x[1] for x in td], [x[2] for x in td])
        rec.ev(sk + ("default-format",) if dev else None)
        rec.outcome(f"{mtype}/default-format-{want}-{got}")
    return F


# ---------------------------------------------------------------------------
# signatures: failing pattern + minimal set of deviations that shows it

_CACHE = {}


def finding_index(mtype, dev, cfgfmt, rec=None):
    """{(stage, key): (sorted fmt tags, first finding)} of one case; cached for the attribution of larger cases."""
    k = spec_key(mtype, dev, cfgfmt)
    if rec is None and k in _CACHE:
        return _CACHE[k]
    idx = {}
    for f in evaluate(mtype, dev, cfgfmt, rec or _NullRec()):
        e = idx.setdefault((f["stage"], f["key"]), [set(), f])
        e[0].add(f["fmt"])
    idx = {kk: ("+".join(sorted(v[0])), v[1]) for kk, v in idx.items()}
    _CACHE[k] = idx
    return idx


def label(dev):
    if not dev:
        return "base"
    return "+".join(d if d in COARSE else f"{d}={dev[d]}" for d in sorted(dev))


def minimal_cause(mtype, dev, cfgfmt, skey, fmts, own):
    """Smallest sub-set of the deviations of this case that shows the same failure (same stage and key; the
    encodings of the larger case may be masked by an earlier failure).  Returns (deviations, encodings, finding)."""
    names = sorted(dev)
    for k in range(len(names)):
        for combo in itertools.combinations(names, k):
            if any(NEEDS.get((mtype, d)) not in (None,) + combo for d in combo):
                continue
            sub = {d: dev[d] for d in combo}
            hit = finding_index(mtype, sub, cfgfmt).get(skey)
            if hit and set(fmts.split("+")) <= set(hit[0].split("+")):
                return sub, hit[0], hit[1]
    return dev, fmts, own


def check_case(case, t):
    mtype, dev = case["mtype"], case["dev"]
    cfgfmt = (case.get("config") or {}).get("default_fmt")
    idx = finding_index(mtype, dev, cfgfmt, rec=t)
    for (stage, key), (fmts, f) in sorted(idx.items()):
        cause, fmts, f = minimal_cause(mtype, dev, cfgfmt, (stage, key), fmts, f)
        sig = f"{mtype}/{stage}/{key}/[{label(cause)}]@{fmts}"
        field = key.split(":")[0].split(".")[0]
        clause = CLAUSES[stage]
        if stage in ("reload", "kvn-vs-xml") and field in FIELD_CLAUSE:
            clause += ": " + FIELD_CLAUSE[field]
        # the recorded (replayable) case is the smallest one showing the failure; it has been executed as well
        small = dict(mtype=mtype, dev=cause, config=case.get("config"))
        seen = "" if cause == dev else f" (also seen with {dev})"
        t.fail(sig, clause, small, f["expected"], f["observed"],
               f"{mtype} {cause or 'base object'} [{f['fmt']}] {stage}: {key} {f['detail']}{seen}")
    return idx


# ---------------------------------------------------------------------------
# engine interface


def units(tier, seed):
    bound = 2 if tier == "quick" else 3
    out = []
    main = []
    for mtype in DIMS:
        for dev in enumerate_specs(mtype, bound):
            main.append(dict(mtype=mtype, dev=dev))
    nchunks = 64 if tier == "quick" else 160
    cfg = {"default_fmt": None}
    for i in range(nchunks):
        chunk = main[i::nchunks]
        if chunk:
            out.append((cfg, dict(cases=chunk)))
    for fmt in FMTS:
        cfg = {"default_fmt": fmt}
        side = []
        for mtype in DIMS:
            for dev in enumerate_specs(mtype, bound - 1):
                side.append(dict(mtype=mtype, dev=dev))
        n = 3 if tier == "quick" else 12
        for i in range(n):
            chunk = side[i::n]
            if chunk:
                out.append((cfg, dict(cases=chunk)))
    return out


def setup(config):
    from beyond.config import config as bc

    upd = {"eop": {"missing_policy": "pass"}}
    fmt = (config or {}).get("default_fmt")
    if fmt:
        upd["io"] = {"ccsds_default_format": fmt}
    bc.update(upd)
    # the Moon-centred frame (analytical ephemeris, no kernel) is registered once per process: the readers map
    # CENTER_NAME = MOON to the frame called "Moon"
    from beyond.env import solarsystem

    solarsystem.get_frame("Moon")
    from mc.ref import ccsds_cmp

    ccsds_cmp.selftest()


def _config_of():
    from beyond.config import config as bc

    return {"default_fmt": bc.get("io", "ccsds_default_format", fallback=None)}


def run_unit(payload, t):
    cfg = _config_of()
    for c in payload["cases"]:
        case = dict(mtype=c["mtype"], dev=c["dev"], config=cfg)
        idx = check_case(case, t)
        if len(t.samples) < 2 and len(c["dev"]) >= 2 and not idx:
            t.sample(case)


def replay(case, t):
    check_case(case, t)
