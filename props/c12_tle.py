"""C12 — TLE text round-trips and is validated.

Bounded exhaustive exploration of the real `beyond.io.tle.Tle` against the
column-table codec `mc.ref.tle_codec`:

* rt       every TLE within k deviations of the ISS element set over per-field text alphabets
           (extreme values, signs, exponents, alternative spellings): parsed fields vs. the model's
           decode, `Tle.from_orbit(tle.orbit())` vs. the input text, 69 columns + checksum;
* corrupt  every single-digit substitution, dropped / doubled character and line-number change of
           both lines: each must be rejected;
* offgrid  orbits whose elements lie between printable values: written lines are 69 columns,
           checksummed, correctly rounded and parse back to the elements within half a printed unit;
* wargs    the writer's identification arguments / defaults (name, norad_id, cospar_id);
* epochs   (real IERS tables configured) epoch round trips in both halves of years with a 30 June leap
           second, a 31 December leap second, and none;
* scales   the orbit of a TLE with its date re-expressed in TT / GPS / TAI (same instant) writes the same text
           (under zero EOP and under the real IERS tables);
* hist     explicit-state part: every short history on ONE Tle object (built by the constructor or yielded
           by from_string) of {tle.orbit(), in-place edits of a returned orbit, write it back, round trip,
           inspect}, each from the pristine library state: the Tle never changes, every orbit() call
           returns a new object equal to the parsed fields, the round trip always reproduces the text;
* fs       every text assembled from <= 3 entries (valid 2-line / 3-line, bad checksum, bad length,
           comment, blank): `Tle.from_string` yields exactly the valid entries, in order.
"""

import itertools
import math
from fractions import Fraction

PROPERTY = "C12"
CLAIM = dict(
    text="Exhaustive exploration of TLE field-text alphabets (one value per column-arithmetic branch: extreme and zero values, "
    "signs, exponent signs, 3/4-digit element numbers, year window 57/56, day 366, empty designator, name line variants) within a "
    "deviation bound around the ISS element set, on the real parser and writer, against a decoder/encoder written "
    "independently from the format's column table. Every parsed field must equal the exact decimal to a few ulps, the epoch to "
    "1e-8 day, the re-written text must be identical (canonical spellings) or field-equal (alternative spellings), 69 columns "
    "with the model's checksum. Every single-digit, length and line-number corruption of both lines must be rejected and "
    "from_string must return exactly the valid entries of every short multi-entry text.",
    note="Trusts mc.ref.tle_codec (self-tested on published element sets) as the definition of the format. Classification "
    "letter and ephemeris type are kept at 'U' / '0' (not in the property's field list). Canonical spelling = what a "
    "right-justified, blank-sign, normalised-mantissa writer produces (the spelling of published element sets).",
    technique="deviation-bounded exhaustive product over field-text alphabets + exhaustive single-character corruptions on the real parser/writer vs. independent column-table codec",
)
RULE = (
    "rt: one case per TLE text (index tuple over 15 field alphabets, <= k non-base fields), distinct by construction; "
    "non-trivial = at least one field differs from the base element set. corrupt: one case per (TLE, line, column, mutation). "
    "offgrid: one case per (field, grid value, offset). wargs: one case per (orbit attributes, keyword set). fs: one case per (sequence of <= 3 entry kinds, error mode)"
)
BOUNDS = {
    "quick": "rt: <= 3 deviating fields; corruptions of every TLE with <= 1 deviating field; offgrid: all single-field offsets; wargs: 2 orbits x 7 argument sets; fs: all sequences of <= 3 of 11 entry kinds x 3 modes; epochs: 23 years x 8 days under real IERS tables; hist: <= 4 operations (1 168 histories)",
    "thorough": "rt: <= 4 deviating fields; corruptions of every TLE with <= 2 deviating fields; offgrid, fs, epochs as quick; hist: <= 5 operations (7 942 histories)",
}
ASSUMPTIONS = [
    "the format is the NORAD/CelesTrak column table reproduced in mc/ref/tle_codec.py; checksum counts digits and '-' only",
    "identical text is demanded for canonical spellings only; for alternative spellings of the same number ('00000+0', explicit '+', "
    "non-normalised mantissa, zero-padded counters, '0 NAME') field equality under the model's decoder is demanded",
    "parsed-value tolerance 8 x 2^-53 relative (decimal text -> binary value is an exact map followed by at most four roundings); epoch tolerance 1e-8 day verbatim",
    "a corrupted text counts as rejected when constructing Tle raises a ValueError (TleParseError is one)",
]
NOT_COVERED = (
    "field values outside the alphabets, more than 4 simultaneous extreme fields, classification letters other than U, "
    "ephemeris types other than 0, alpha-5 catalogue numbers, corruptions of non-digit characters, two simultaneous corruptions, "
    "multi-entry texts of more than 3 entries or with orphan name / orphan line-1 entries"
)

# ---------------------------------------------------------------------------
# alphabets: (text, class label, canonical spelling?)   index 0 = base (ISS 25544, 2016-05-03)

ANG = [("  0.0000", "zero", True), ("180.0000", "180", True), ("359.9999", "max", True)]
def _expf():
    """Implied-decimal fields: zero spellings, mantissa sign {blank, +, -} x exponent {-5, -0, +0, +1}, extreme magnitudes."""
    out = [(" 00000-0", "zero", True), (" 00000+0", "zero-plus-exponent", False), ("+00000-0", "zero-explicit-plus", False)]
    for sign, sname, scanon in ((" ", "pos", True), ("+", "explicit-plus", False), ("-", "neg", True)):
        for ex, ename, ecanon in (("-5", "exp-", True), ("-0", "exp-0", False), ("+0", "exp+0", True), ("+1", "exp+1", True)):
            out.append((sign + "12345" + ex, f"{sname}/{ename}", scanon and ecanon))
    out += [(" 99999-1", "max-mantissa", True), (" 10000-9", "exponent-9", True), ("-25000+0", "neg/exp+0", True),
            (" 01234-4", "non-normalised", False)]
    return out


EXPF = _expf()
FIELDS = [
    ("satnum", [("25544", "plain", True), ("00001", "min", True), ("99999", "max", True)]),
    ("desig", [("98067A", "plain", True), ("", "empty", True), ("57001ABC", "year57-full", True), ("56999ZZZ", "year56-full", True)]),
    ("epoch", [("16124.55610684", "plain", True), ("57001.00000000", "1957-first", True), ("99365.99999999", "1999-last", True),
               ("00001.00000000", "2000-first", True), ("56366.50000000", "2056-day366", True)]),
    ("ndot", [(" .00003442", "plain", True), (" .00000000", "zero", True), ("-.00001524", "negative", True),
              (" .99999999", "max", True), ("-.00000001", "negative-min", True), ("+.00001524", "explicit-plus", False)]),
    ("nddot", EXPF),
    ("bstar", [(" 58526-4", "plain", True)] + EXPF),
    ("elnum", [("999", "3-digits", True), ("0", "zero", True), ("7", "1-digit", True), ("1000", "4-digits", True),
               ("9999", "4-digits", True), ("0007", "zero-padded", False)]),
    ("i", [(" 51.6421", "plain", True)] + ANG),
    ("raan", [("216.9905", "plain", True)] + ANG),
    ("e", [("0003381", "plain", True), ("0000000", "zero", True), ("9999999", "max", True)]),
    ("argp", [(" 87.7267", "plain", True)] + ANG),
    ("M", [(" 22.6472", "plain", True)] + ANG),
    ("n", [("15.54198229", "plain", True), (" 0.50000000", "low", True), ("16.99999999", "max", True)]),
    ("revnum", [("99798", "5-digits", True), ("0", "zero", True), ("11173", "5-digits", True), ("99999", "max", True),
                ("00007", "zero-padded", False)]),
    ("name", [(None, "absent", True), ("ISS (ZARYA)", "plain", True), ("0 ISS (ZARYA)", "0-prefixed", False)]),
]
NAMES = [f[0] for f in FIELDS]
NF = len(FIELDS)

PI = Fraction("3.14159265358979323846264338327950288419716939937510")
EPS = Fraction(1, 2 ** 53)
REL_TOL = 8 * EPS


def enum_tuples(bound):
    for k in range(bound + 1):
        for coords in itertools.combinations(range(NF), k):
            for alts in itertools.product(*[range(1, len(FIELDS[c][1])) for c in coords]):
                idx = [0] * NF
                for c, a in zip(coords, alts):
                    idx[c] = a
                yield tuple(idx)


def count_tuples(bound):
    n = 0
    for k in range(bound + 1):
        for coords in itertools.combinations(range(NF), k):
            n += math.prod(len(FIELDS[c][1]) - 1 for c in coords)
    return n


# ---------------------------------------------------------------------------
# units


CFG = {"eop": "pass"}  # zero EOP (library default policy "pass"): everything but the parts below
CFG_REAL = {"eop": "real"}  # real IERS tables (tests/data/pole: TAI-UTC, UT1-UTC ...): epoch round trips around leap seconds
CFG_HIST = {"eop": "pass", "part": "hist"}  # own worker group: these workers never execute Tle code themselves


def units(tier, seed):
    cfg = CFG
    u = []
    rt_bound, co_bound = (3, 1) if tier == "quick" else (4, 2)
    parts = 48 if tier == "quick" else 192
    for j in range(parts):
        u.append((cfg, dict(part="rt", bound=rt_bound, j=j, parts=parts)))
    cparts = 16 if tier == "quick" else 64
    for j in range(cparts):
        u.append((cfg, dict(part="corrupt", bound=co_bound, j=j, parts=cparts)))
    u.append((cfg, dict(part="offgrid")))
    u.append((cfg, dict(part="wargs")))
    for mode in FS_MODES:
        u.append((cfg, dict(part="fs", mode=mode)))
    # real EOP tables: epoch alphabet over leap-second and ordinary years, both halves; off-grid epochs
    eparts = 4
    for j in range(eparts):
        u.append((CFG_REAL, dict(part="epochs", j=j, parts=eparts)))
    u.append((CFG_REAL, dict(part="offgrid")))
    u.append((cfg, dict(part="scales")))
    u.append((CFG_REAL, dict(part="scales")))
    # histories on one Tle object
    depth = 4 if tier == "quick" else 5
    hparts = 16 if tier == "quick" else 64
    for j in range(hparts):
        u.append((CFG_HIST, dict(part="hist", depth=depth, j=j, parts=hparts)))
    return u


_CFG = {}


def setup(config):
    import logging
    import os
    from beyond.config import config as bc
    from mc import engine

    config = config or CFG
    _CFG.clear()
    _CFG.update(config)
    if config.get("eop") == "real":
        pole = os.path.join(engine.repo_path(), "tests", "data", "pole")
        if not os.path.isdir(pole):
            pole = "/repo/tests/data/pole"
        bc.update({"eop": {"folder": pole, "type": "all", "missing_policy": "pass"}})
        from beyond.dates.eop import EopDb

        tai_utc = [EopDb.get(m).tai_utc for m in (56108.5, 56109.5)]  # 2012-06-30 / 2012-07-01
        if tai_utc != [34, 35]:
            raise RuntimeError(f"harness: real EOP tables not active (TAI-UTC around 2012-07-01: {tai_utc})")
    else:
        bc.update({"eop": {"missing_policy": "pass"}})
    # from_string(error="warn") logs through the library's logger: keep the workers' stderr quiet
    logging.getLogger("beyond").addHandler(logging.NullHandler())
    logging.getLogger("beyond").propagate = False
    # warm-up of machinery not under test that initialises lazily (EOP entry points of Date, lazy imports), so that the
    # forked children of the hist part do not pay for it and "pristine" means: no Tle / Orbit code has run
    import _strptime  # noqa
    import numpy  # noqa
    from beyond.dates import Date
    from beyond.io.tle import Tle  # noqa
    from beyond.orbits import Orbit  # noqa
    import beyond.propagators.sgp4  # noqa

    Date(2000, 1, 1)


def run_unit(p, t):
    if p["part"] == "rt":
        for j, idx in enumerate(enum_tuples(p["bound"])):
            if j % p["parts"] == p["j"]:
                check_rt(list(idx), t)
    elif p["part"] == "corrupt":
        for j, idx in enumerate(enum_tuples(p["bound"])):
            if j % p["parts"] == p["j"]:
                run_corruptions(list(idx), t)
    elif p["part"] == "offgrid":
        for case in offgrid_cases():
            check_offgrid(case, t)
    elif p["part"] == "wargs":
        for case in wargs_cases():
            check_wargs(case, t)
    elif p["part"] == "scales":
        for case in scale_cases():
            check_scale(case, t)
    elif p["part"] == "epochs":
        for j, ep in enumerate(epoch_alphabet()):
            if j % p["parts"] == p["j"]:
                check_rt([0] * NF, t, epoch=ep)
    elif p["part"] == "hist":
        for j, ops in enumerate(enum_histories(p["depth"])):
            if j % p["parts"] == p["j"]:
                check_history(dict(part="hist", ops=ops, config=CFG_HIST), t, isolate=True)
    elif p["part"] == "fs":
        for n in range(0, 4):
            for kinds in itertools.product(FS_KINDS, repeat=n):
                check_fs(dict(part="fs", kinds=list(kinds), mode=p["mode"]), t)


def replay(case, t):
    if case["part"] == "rt":
        check_rt(case["idx"], t, epoch=case.get("epoch"))
    elif case["part"] == "hist":
        check_history(case, t, isolate=False)
    elif case["part"] == "scales":
        check_scale(case, t)
    elif case["part"] == "corrupt":
        check_corruption(case, t)
    elif case["part"] == "offgrid":
        check_offgrid(case, t)
    elif case["part"] == "fs":
        check_fs(case, t)
    elif case["part"] == "wargs":
        check_wargs(case, t)


# ---------------------------------------------------------------------------
# rt: parse + round trip


def build_text(idx, epoch=None):
    from mc.ref import tle_codec as tc

    f = {n: FIELDS[c][1][k][0] for c, (n, k) in enumerate(zip(NAMES, idx))}
    if epoch is not None:
        f["epoch"] = epoch
    name = f.pop("name")
    l1, l2 = tc.encode(f)
    return name, l1, l2


def _epoch_cls(epoch):
    y = 1900 + int(epoch[:2]) if int(epoch[:2]) >= 57 else 2000 + int(epoch[:2])
    kind = "june-leap-second-year" if y in (1972, 1981, 1982, 1983, 1985, 1992, 1993, 1994, 1997, 2012, 2015) else \
        "december-leap-second-year" if y in (1987, 1989, 1990, 1995, 1998, 2005, 2008, 2016) else "ordinary-year"
    half = "second-half" if float(epoch[2:]) >= (183 if y % 4 == 0 else 182) else "first-half"
    return f"{kind}/{half}"


def epoch_alphabet():
    """Epoch texts (real-EOP part): years with a leap second on 30 June, on 31 December, and without, each at the
    first instant, in spring, on both sides of 30 June / 1 July, in autumn and at the last 1e-8 day of the year."""
    june = [1981, 1982, 1983, 1985, 1992, 1993, 1994, 1997, 2012, 2015]
    december = [1987, 1989, 1990, 1995, 1998, 2005, 2008, 2016]
    none = [1984, 1986, 2000, 2010, 2014]
    out = []
    for y in june + december + none:
        leap = y % 4 == 0
        jul1 = 183 if leap else 182
        for day in ("001.00000000", "100.51782528", "%03d.99999999" % (jul1 - 1), "%03d.00000000" % jul1, "%03d.00001158" % jul1,
                    "200.51782528", "264.25000000", "%03d.99999999" % (366 if leap else 365)):
            out.append("%02d%s" % (y % 100, day))
    return out


def _cls(idx, field):
    """Class label of the value of `field` in the TLE `idx` (fields that are not enumerated: '-')."""
    if field not in NAMES:
        return "-"
    c = NAMES.index(field)
    return FIELDS[c][1][idx[c]][1]


def _rel(lib, exact):
    """|lib - exact| and the tolerance 8 x 2^-53 x |exact| as Fractions (exact arithmetic)."""
    return abs(Fraction(float(lib)) - exact), REL_TOL * abs(exact)


def canonical_text(name, l1, l2, dec):
    """The text a right-justifying, blank-plus-sign, normalised-mantissa writer produces for the decoded numbers (codec only)."""
    from mc.ref import tle_codec as tc

    cos = dec["cospar"]
    f = dict(
        satnum="%05d" % dec["satnum"], desig=(cos[2:4] + cos[5:]) if cos else "", epoch=l1[18:32], ndot=tc.fmt_ndot(dec["ndot"] / 2),
        nddot=tc.fmt_exp(dec["nddot"] / 6), bstar=tc.fmt_exp(dec["bstar"]), elnum=str(dec["elnum"]), i=tc.fmt_angle(dec["i"]),
        raan=tc.fmt_angle(dec["raan"]), e=tc.fmt_ecc(dec["e"]), argp=tc.fmt_angle(dec["argp"]), M=tc.fmt_angle(dec["M"]),
        n=tc.fmt_n(dec["n"]), revnum=str(dec["revnum"]),
    )
    c1, c2 = tc.encode(f)
    cname = None if name is None else name[2:] if name.startswith("0 ") else name
    return (cname + "\n" if cname is not None else "") + c1 + "\n" + c2


def check_rt(idx, t, epoch=None):
    import numpy as np
    from mc.ref import tle_codec as tc
    from beyond.io.tle import Tle

    name, l1, l2 = build_text(idx, epoch)
    text = (name + "\n" if name is not None else "") + l1 + "\n" + l2
    canonical = all(FIELDS[c][1][k][2] for c, k in enumerate(idx))
    case = dict(part="rt", idx=list(idx), text=text, config=dict(_CFG))
    if epoch is not None:
        case["epoch"] = epoch
    dec = tc.decode(l1, l2)

    def _c(field):
        return _epoch_cls(epoch) if (field == "epoch" and epoch is not None) else _cls(idx, field)

    t.states_add(1)
    t.ev((tuple(idx), epoch) if any(idx) or epoch else None)

    # ---- parse
    try:
        tle = Tle(text)
        t.trans(1)
    except Exception as e:
        dev = [n for n, k in zip(NAMES, idx) if k] or ["base"]
        for fld in dev:
            t.fail(f"tle/parse-raises/{fld}/{_c(fld) if fld != 'base' else 'base'}", "a well-formed TLE is parsed", case, "Tle", repr(e))
        return
    bad = set()

    def mismatch(field, expected, observed, what="parsed field equals the printed value"):
        bad.add(field)
        t.fail(f"tle/{FIELD_ATTR.get(field, field)}/{_c(field)}", what, case, expected, observed,
               f"field {field} = {FIELDS[NAMES.index(field)][1][idx[NAMES.index(field)]][0]!r}")

    # exact fields
    exp_name = "" if name is None else name[2:] if name.startswith("0 ") else name
    if tle.name != exp_name:
        mismatch("name", exp_name, tle.name)
    if tle.norad_id != dec["satnum"]:
        mismatch("satnum", dec["satnum"], tle.norad_id)
    if tle.cospar_id != dec["cospar"]:
        mismatch("desig", dec["cospar"], tle.cospar_id)
    if tle.element_nb != dec["elnum"]:
        mismatch("elnum", dec["elnum"], tle.element_nb)
    if tle.revolutions != dec["revnum"]:
        mismatch("revnum", dec["revnum"], tle.revolutions)
    if tle.classification != "U" or tle.type != 0:
        t.fail("tle/classification-type", "classification and ephemeris type are read from their columns", case, ["U", 0],
               [tle.classification, tle.type])
    # epoch: 1e-8 day, verbatim
    ep_us = tc.datetime_us(tle.epoch.datetime)
    err_us = abs(ep_us - tc.epoch_us(dec))
    if not t.margin("parsed epoch error vs 1e-8 day", float(err_us), 864.0, case) or tle.epoch.scale.name != "UTC":
        mismatch("epoch", str(tc.epoch_datetime(dec)), str(tle.epoch), "epoch preserved to 1e-8 day (UTC)")
    # real-valued fields: a few ulps
    d2r = PI / 180
    reals = [
        ("ndot", tle.ndot, dec["ndot"]),
        ("nddot", tle.ndotdot, dec["nddot"]),
        ("bstar", tle.bstar, dec["bstar"]),
        ("i", tle.i, dec["i"] * d2r),
        ("raan", tle.Ω, dec["raan"] * d2r),
        ("e", tle.e, dec["e"]),
        ("argp", tle.ω, dec["argp"] * d2r),
        ("M", tle.M, dec["M"] * d2r),
        ("n", tle.n, dec["n"] * 2 * PI / 86400),
    ]
    for field, lib, exact in reals:
        err, tol = _rel(lib, exact)
        if not t.margin("parsed value relative error vs 8 x 2^-53", err, tol, case) or not math.isfinite(float(lib)):
            mismatch(field, float(exact), float(lib))

    # ---- orbit: the six elements and the attached data are the parsed ones
    try:
        orb = tle.orbit()
        t.trans(1)
        six = np.array(orb, dtype=float)
    except Exception as e:
        t.fail("tle/orbit-raises", "a parsed TLE converts to an orbit", case, "Orbit", repr(e))
        return
    if not np.array_equal(six, np.array([tle.i, tle.Ω, tle.e, tle.ω, tle.M, tle.n], dtype=float)) or orb.date != tle.epoch \
            or orb.form.name != "tle" or getattr(orb.frame, "name", str(orb.frame)) != "TEME":
        t.fail("tle/orbit-elements", "Tle.orbit() carries the parsed elements (TLE form, TEME, epoch)", case,
               [tle.i, tle.Ω, tle.e, tle.ω, tle.M, tle.n], six)

    # ---- write back
    try:
        w = Tle.from_orbit(orb)
        out = str(w)
        t.trans(2)
    except Exception as e:
        dev = [n for n, k in zip(NAMES, idx) if k and n not in bad] or ["base"]
        for fld in dev:
            t.fail(f"tle/write-raises/{fld}/{_c(fld) if fld != 'base' else 'base'}", "the orbit of a parsed TLE can be written back",
                   case, text, repr(e))
        return
    lines = out.split("\n")
    exp_lines = 2 if name is None else 3
    o1, o2 = lines[-2], lines[-1]
    if len(lines) != exp_lines or len(o1) != 69 or len(o2) != 69:
        t.fail("tle/written-shape", "written TLE has the name line (if any) and two lines of exactly 69 characters", case,
               [exp_lines, 69, 69], [len(lines), len(o1), len(o2)], out)
        return
    if str(tc.checksum(o1)) != o1[68] or str(tc.checksum(o2)) != o2[68]:
        t.fail("tle/written-checksum", "written lines carry the correct checksum", case, [tc.checksum(o1), tc.checksum(o2)], [o1[68], o2[68]], out)
        return
    # is the input the writer's canonical spelling?  Decided by the codec (independent of the library); the alphabet flags
    # must agree with it -- a disagreement is a defect of this harness, whatever the library does
    canon_text = canonical_text(name, l1, l2, dec)
    if (text == canon_text) != canonical:
        raise AssertionError(f"harness: alphabet 'canonical' flag disagrees with the codec: {text!r} vs {canon_text!r}")
    if w is tle:
        t.fail("tle/roundtrip/source-object-returned", "Tle.from_orbit builds a new Tle from the orbit's current content (never hands back its source)",
               case, "a new Tle", "the Tle the orbit was read from")
    t.outcome(("rt", canonical, out == text))
    if out == text:
        if not canonical:
            # the writer must re-format the numbers; echoing a non-canonical source verbatim means it did not write at all
            alt = [n for c, (n, k) in enumerate(zip(NAMES, idx)) if not FIELDS[c][1][k][2]]
            for fld in alt:
                t.fail(f"tle/roundtrip/alternative-spelling-reproduced-verbatim/{fld}",
                       "the writer formats the orbit's fields in its own spelling (it never echoes the source text)", case, canon_text, out)
            return
        if sum(1 for k in idx if k) == 3 and len(t.samples) < 3:
            t.sample(dict(case, written=out))
        return
    # not identical: which fields differ under the model's decoder?
    try:
        dec_out = tc.decode(o1, o2)
    except Exception as e:
        t.fail("tle/written-undecodable", "written lines follow the column table", case, text, out, repr(e))
        return
    out_name = lines[0] if exp_lines == 3 else ""
    differing = [k for k in DEC_FIELD if dec_out[k] != dec[k]]
    fields = sorted(set(DEC_FIELD[k] for k in differing))
    if out_name != exp_name:
        fields.append("name")
    reported = False
    for fld in fields:
        if fld in bad:
            reported = True  # same root cause as the parse mismatch already recorded
            continue
        reported = True
        t.fail(f"tle/roundtrip/{FIELD_ATTR.get(fld, fld)}/{_c(fld)}", "from_orbit(tle.orbit()) preserves every field", case, text, out,
               f"field {fld}: in {_fieldtext(dec, fld)} out {_fieldtext(dec_out, fld)}")
    if not fields and canonical:
        # pure spelling difference on a canonical input: locate the columns
        cols = [n for n, a, b in tc.L1 if l1[a - 1:b] != o1[a - 1:b]] + [n for n, a, b in tc.L2 if l2[a - 1:b] != o2[a - 1:b]]
        if exp_lines == 3 and lines[0] != name:
            cols.append("name")
        for fld in sorted(set(cols)) or ["?"]:
            t.fail(f"tle/roundtrip-spelling/{fld}/{_c(fld) if fld in NAMES else '-'}",
                   "parse + write reproduces the identical lines (canonical spelling)", case, text, out)
        reported = True
    if not fields and not canonical:
        t.outcome(("rt-alt-spelling-field-equal",))


FIELD_ATTR = {"elnum": "element_nb", "revnum": "revolutions", "satnum": "norad_id", "desig": "cospar_id"}
DEC_FIELD = {"satnum": "satnum", "satnum2": "satnum", "classification": "classification", "cospar": "desig", "epoch_year": "epoch",
             "epoch_doy": "epoch", "ndot": "ndot", "nddot": "nddot", "bstar": "bstar", "ephtype": "ephtype", "elnum": "elnum", "i": "i",
             "raan": "raan", "e": "e", "argp": "argp", "M": "M", "n": "n", "revnum": "revnum"}
def _fieldtext(dec, fld):
    return {k: str(v) for k, v in dec.items() if DEC_FIELD.get(k) == fld}


# ---------------------------------------------------------------------------
# corruptions

DIGITS = "0123456789"


def corruption_list(l1, l2):
    """Every corruption of the pair, as (line, pos, kind, arg)."""
    out = []
    for ln, line in ((1, l1), (2, l2)):
        for p, ch in enumerate(line):
            if ch in DIGITS:
                for d in DIGITS:
                    if d != ch:
                        out.append((ln, p, "digit", d))
            out.append((ln, p, "drop", None))
            out.append((ln, p, "double", None))
        for d in DIGITS:
            if d != line[0]:
                out.append((ln, 0, "linenumber-checksum-fixed", d))
    return out


def mutate(line, pos, kind, arg):
    from mc.ref import tle_codec as tc

    if kind == "digit":
        return line[:pos] + arg + line[pos + 1:]
    if kind == "drop":
        return line[:pos] + line[pos + 1:]
    if kind == "double":
        return line[:pos] + line[pos] + line[pos:]
    if kind == "linenumber-checksum-fixed":
        m = arg + line[1:68]
        return m + str(tc.checksum(m))
    raise ValueError(kind)


def _col_field(ln, pos):
    from mc.ref import tle_codec as tc

    if pos == 68:
        return "checksum"
    for n, a, b in (tc.L1 if ln == 1 else tc.L2):
        if a - 1 <= pos <= b - 1:
            return n
    return "blank"


def run_corruptions(idx, t):
    name, l1, l2 = build_text(idx)
    for ln, pos, kind, arg in corruption_list(l1, l2):
        check_corruption(dict(part="corrupt", idx=list(idx), line=ln, pos=pos, kind=kind, arg=arg), t)


def check_corruption(case, t):
    from beyond.io.tle import Tle

    name, l1, l2 = build_text(case["idx"])
    ln, pos, kind, arg = case["line"], case["pos"], case["kind"], case["arg"]
    m1 = mutate(l1, pos, kind, arg) if ln == 1 else l1
    m2 = mutate(l2, pos, kind, arg) if ln == 2 else l2
    text = (name + "\n" if name is not None else "") + m1 + "\n" + m2
    t.states_add(1)
    t.ev((tuple(case["idx"]), ln, pos, kind, arg))
    fld = _col_field(ln, pos) if kind == "digit" else "any-column"  # length / line-number errors: one pattern per line
    what = {"digit": "a line with a corrupted digit", "drop": "a line of wrong length (68)", "double": "a line of wrong length (70)",
            "linenumber-checksum-fixed": "a line with a wrong line number"}[kind]
    try:
        obj = Tle(text)
        t.trans(1)
    except ValueError:
        t.trans(1)
        t.outcome(("corrupt-rejected", kind))
        return
    except Exception as e:
        t.trans(1)
        t.fail(f"tle/corrupt-{kind}/line{ln}/{fld}/raises-{type(e).__name__}", what + " is rejected with a parse error (ValueError)",
               dict(case, text=text), "ValueError", repr(e))
        return
    t.fail(f"tle/corrupt-{kind}-accepted/line{ln}/{fld}", what + " is rejected", dict(case, text=text), "TleParseError", "accepted: " + repr(str(obj)))


# ---------------------------------------------------------------------------
# offgrid: orbits between printable values

# field -> (printed unit in the field's own unit, list of grid values as decimal strings)
OFF_DELTAS = [Fraction(3, 10), Fraction(-3, 10), Fraction(49, 100), Fraction(-49, 100)]
OFF_FIELDS = {
    "i": (Fraction(1, 10 ** 4), ["51.6421", "0.0001", "179.9999"]),
    "raan": (Fraction(1, 10 ** 4), ["216.9905", "0.0001", "359.9998", "-10.0000", "370.0000"]),
    "argp": (Fraction(1, 10 ** 4), ["87.7267", "359.9998", "-0.0001"]),
    "M": (Fraction(1, 10 ** 4), ["22.6472", "180.0000", "725.0000"]),
    "e": (Fraction(1, 10 ** 7), ["0.0003381", "0.0000001", "0.9999998", "0.5"]),
    "n": (Fraction(1, 10 ** 8), ["15.54198229", "0.50000001", "16.99999998"]),
    "ndot": (Fraction(1, 10 ** 8), ["0.00003442", "-0.00001524", "0.99999998", "0.00000001"]),
    "bstar": (None, ["0.58526e-4", "-0.12345e-5", "0.99999e-1", "0.10000e-9", "0.12345e+1", "-0.25000e+0", "-0.12345e+1", "-0.10000e+0"]),
    "nddot": (None, ["0.12345e-5", "-0.12345e-5", "0.99999e-1", "-0.25000e+0", "-0.12345e+1"]),
    "epoch": (Fraction(864), ["2016-05-03T13:20:47.630976", "1999-12-31T23:59:59.998272", "2000-01-01T00:00:00.000864",
                              "2012-06-30T23:59:59.999136", "2012-07-01T00:00:00.000864", "2012-09-20T12:25:40.104192",
                              "2015-12-31T23:59:59.998272", "1997-10-27T02:57:46.665792"]),
}


def offgrid_cases():
    out = []
    for fld, (unit, grid) in OFF_FIELDS.items():
        for g in grid:
            for d in [Fraction(0)] + OFF_DELTAS:
                out.append(dict(part="offgrid", field=fld, grid=g, delta=[d.numerator, d.denominator], config=dict(_CFG)))
    return out


def check_offgrid(case, t):
    import numpy as np
    from datetime import datetime, timedelta
    from decimal import Decimal
    from mc.ref import tle_codec as tc
    from beyond.dates import Date
    from beyond.io.tle import Tle
    from beyond.orbits import Orbit

    fld, g = case["field"], case["grid"]
    delta = Fraction(*case["delta"])
    unit = OFF_FIELDS[fld][0]
    t.states_add(1)
    t.ev((fld, g, case["delta"]))
    # element set: ISS base values, one field replaced by grid + delta x (printed unit)
    vals = dict(i=Fraction("51.6421"), raan=Fraction("216.9905"), e=Fraction("0.0003381"), argp=Fraction("87.7267"), M=Fraction("22.6472"),
                n=Fraction("15.54198229"), ndot=Fraction("0.00003442"), bstar=Fraction("0.58526e-4"), nddot=Fraction(0))
    epoch = datetime(2016, 5, 3, 13, 20, 47, 630976)
    if fld == "epoch":
        epoch = datetime.strptime(g, "%Y-%m-%dT%H:%M:%S.%f") + timedelta(microseconds=int(round(delta * 864)))
    elif unit is None:  # 5 significant digits
        gv = Fraction(g)
        u = Fraction(10) ** (Decimal(g).adjusted() + 1 - 5)
        vals[fld] = gv + delta * u
    else:
        vals[fld] = Fraction(g) + delta * unit
    d2r = math.pi / 180
    six = [float(vals["i"]) * d2r, float(vals["raan"]) * d2r, float(vals["e"]), float(vals["argp"]) * d2r, float(vals["M"]) * d2r,
           float(vals["n"]) * 2 * math.pi / 86400]
    data = dict(bstar=float(vals["bstar"]), ndot=float(vals["ndot"]) * 2, ndotdot=float(vals["nddot"]) * 6, name="", cospar_id="1998-067A",
                norad_id=25544, element_nb=999, revolutions=99798, type=0)
    # expected texts: correct rounding of the exact binary values actually handed to the writer
    r2d = 180 / PI
    try:
        exp = dict(
            satnum="25544", desig="98067A", elnum="999", revnum="99798",
            epoch=tc.fmt_epoch(epoch),
            ndot=tc.fmt_ndot(Fraction(data["ndot"]) / 2),
            nddot=tc.fmt_exp(Fraction(data["ndotdot"]) / 6),
            bstar=tc.fmt_exp(Fraction(data["bstar"])),
            i=tc.fmt_angle((Fraction(six[0]) * r2d) % 360),
            raan=tc.fmt_angle((Fraction(six[1]) * r2d) % 360),
            e=tc.fmt_ecc(Fraction(six[2])),
            argp=tc.fmt_angle((Fraction(six[3]) * r2d) % 360),
            M=tc.fmt_angle((Fraction(six[4]) * r2d) % 360),
            n=tc.fmt_n(Fraction(six[5]) * 86400 / (2 * PI)),
        )
        e1, e2 = tc.encode(exp)
    except ValueError as e:
        t.exclude("offgrid: value does not fit the format (cannot be written as a TLE)")
        return
    if any(x.strip().startswith("360.0000") for x in (exp["i"], exp["raan"], exp["argp"], exp["M"])):
        t.exclude("offgrid: angle rounds up to 360.0000")
        return
    try:
        orb = Orbit(six, Date(epoch), "TLE", "TEME", "Sgp4", **data)
        w = Tle.from_orbit(orb)
        t.trans(2)
    except Exception as e:
        t.fail(f"tle/offgrid-write-raises/{fld}", "an orbit that fits the format can be written as a TLE", case, [e1, e2], repr(e))
        return
    o = w.text.split("\n")
    if len(o) != 2 or len(o[0]) != 69 or len(o[1]) != 69 or str(tc.checksum(o[0])) != o[0][68] or str(tc.checksum(o[1])) != o[1][68]:
        t.fail(f"tle/offgrid-shape/{fld}", "written lines are 69 characters with correct checksums", case, [e1, e2], o)
        return
    if o != [e1, e2]:
        cols = [n for n, a, b in tc.L1 if e1[a - 1:b] != o[0][a - 1:b]] + [n for n, a, b in tc.L2 if e2[a - 1:b] != o[1][a - 1:b]]
        for c in sorted(set(cols)):
            t.fail(f"tle/offgrid-rounding/{c}", "written field is the element rounded to the printed precision", case, [e1, e2], o,
                   f"field {fld} = {g} + {delta} units")
    # parse back: same elements within half a printed unit (the writer's resolution) + parse round-off
    back = np.array(w.orbit(), dtype=float)
    t.trans(1)
    units6 = [1e-4 * d2r, 1e-4 * d2r, 1e-7, 1e-4 * d2r, 1e-4 * d2r, 1e-8 * 2 * math.pi / 86400]
    for k, nm in enumerate(["i", "raan", "e", "argp", "M", "n"]):
        diff = abs(back[k] - six[k])
        if nm in ("i", "raan", "argp", "M"):
            diff = abs((back[k] - six[k] + math.pi) % (2 * math.pi) - math.pi)
        if not t.margin("offgrid parse-back error vs half a printed unit", diff, 0.5 * units6[k] * (1 + 1e-9) + 1e-15, case):
            t.fail(f"tle/offgrid-parse-back/{nm}", "written TLE parses back to the same elements (printed precision)", case, six[k], back[k])
    ep_back = tc.datetime_us(w.epoch.datetime)
    if not t.margin("offgrid epoch parse-back error vs 0.5e-8 day", abs(ep_back - tc.datetime_us(epoch)), 432.0, case):
        t.fail("tle/offgrid-parse-back/epoch/" + _CFG.get("eop", "pass") + "-eop", "written TLE parses back to the same epoch (1e-8 day)", case, str(epoch), str(w.epoch))
    t.outcome(("offgrid", fld, o == [e1, e2]))
    if delta == OFF_DELTAS[2]:
        t.sample(dict(case, written=o))


# ---------------------------------------------------------------------------
# wargs: identification arguments / defaults of the writer

WARGS_ATTRS = [None, dict(name="ISS (ZARYA)", norad_id=25544, cospar_id="1998-067A")]
WARGS_KW = [
    {},
    dict(name="SAT X"),
    dict(norad_id=42),
    dict(norad_id="00042"),
    dict(cospar_id="2000-001A"),
    dict(cospar_id="1957-001ABC"),
    dict(name="SAT X", norad_id=42, cospar_id="2000-001A"),
]


def wargs_cases():
    return [dict(part="wargs", attrs=a, kw=k) for a in range(len(WARGS_ATTRS)) for k in range(len(WARGS_KW))]


def check_wargs(case, t):
    """Tle.from_orbit(orbit, name=, norad_id=, cospar_id=) on orbits with / without identification attributes."""
    from datetime import datetime
    from mc.ref import tle_codec as tc
    from beyond.dates import Date
    from beyond.io.tle import Tle
    from beyond.orbits import Orbit

    attrs = WARGS_ATTRS[case["attrs"]] or {}
    kw = WARGS_KW[case["kw"]]
    t.states_add(1)
    t.ev((case["attrs"], case["kw"]))
    name, l1, l2 = build_text([0] * NF)
    d2r = math.pi / 180
    six = [51.6421 * d2r, 216.9905 * d2r, 0.0003381, 87.7267 * d2r, 22.6472 * d2r, 15.54198229 * 2 * math.pi / 86400]
    data = dict(bstar=0.58526e-4, ndot=0.00003442 * 2, ndotdot=0.0, element_nb=999, revolutions=99798, type=0, **attrs)
    # the model's expectation: explicit argument > orbit attribute > default (99999 / blank designator / no name line)
    e_name = kw.get("name", attrs.get("name"))
    e_norad = kw.get("norad_id", attrs.get("norad_id", 99999))
    e_cospar = kw.get("cospar_id", attrs.get("cospar_id", ""))
    f = {n: FIELDS[c][1][0][0] for c, n in enumerate(NAMES) if n != "name"}
    f["satnum"] = "%05d" % int(e_norad)
    f["desig"] = (e_cospar[2:4] + e_cospar[5:]) if e_cospar else ""
    e1, e2 = tc.encode(f)
    expected = (e_name + "\n" if e_name else "") + e1 + "\n" + e2
    try:
        orb = Orbit(six, Date(datetime(2016, 5, 3, 13, 20, 47, 630976)), "TLE", "TEME", "Sgp4", **data)
        w = Tle.from_orbit(orb, **kw)
        out = str(w)
        t.trans(2)
    except Exception as e:
        t.fail("tle/writer-args/raises/" + ("with-ids" if attrs else "without-ids"), "an orbit can be written with explicit / default identification",
               case, expected, repr(e))
        return
    t.outcome(("wargs", out == expected))
    if out != expected:
        t.fail("tle/writer-args/" + ("+".join(sorted(kw)) or "defaults") + "/" + ("with-ids" if attrs else "without-ids"),
               "identification fields of the written TLE: explicit argument, else orbit attribute, else default", case, expected, out)
        return
    if w.norad_id != int(e_norad) or w.cospar_id != e_cospar or w.name != (e_name or ""):
        t.fail("tle/writer-args/parse-back", "written identification parses back", case, [int(e_norad), e_cospar, e_name or ""],
               [w.norad_id, w.cospar_id, w.name])


# ---------------------------------------------------------------------------
# hist: explicit-state search over operation histories on ONE Tle object

H_SOURCES = ["ctor", "from_string"]
H_OPS = ["orbit", "edit-form-dv", "edit-attrs", "edit-element", "write-last", "roundtrip", "inspect"]


def enum_histories(depth):
    """[source] + every sequence of 1..depth operations (edits / write-last need an orbit obtained before)."""

    def rec(hist, have_orbit):
        for op in H_OPS:
            if op.startswith("edit") or op == "write-last":
                if not have_orbit:
                    continue
            h2 = hist + [op]
            yield h2
            if len(h2) - 1 < depth:
                yield from rec(h2, have_orbit or op == "orbit")

    for src in H_SOURCES:
        yield from rec([src], False)


def _hist_valid(ops):
    have = False
    if not ops or ops[0] not in H_SOURCES or len(ops) < 2:
        return False
    for op in ops[1:]:
        if (op.startswith("edit") or op == "write-last") and not have:
            return False
        have = have or op == "orbit"
    return True


def _tle_fields(tle):
    return [tle.name, tle.text, str(tle), tle.norad_id, tle.classification, tle.cospar_id, str(tle.epoch), float(tle.ndot), float(tle.ndotdot),
            float(tle.bstar), tle.element_nb, tle.revolutions, tle.type, float(tle.i), float(tle.Ω), float(tle.e), float(tle.ω),
            float(tle.M), float(tle.n)]


def _orbit_snapshot(o):
    import numpy as np

    d = o._data
    return [[float(c) for c in np.array(o, dtype=float)], o.form.name, getattr(o.frame, "name", str(o.frame)), str(o.date)] + \
        [repr(d.get(k)) for k in ("bstar", "ndot", "ndotdot", "name", "cospar_id", "norad_id", "element_nb", "revolutions", "type")]


def exec_history(arg):
    """Run in the pristine library state.  Returns the list of invariant violations [(signature tail, clause, expected, observed)]
    found at the END of the history (every prefix is a history of its own)."""
    import numpy as np
    from beyond.io.tle import Tle

    ops, text, multi = arg["ops"], arg["text"], arg["multi"]
    out = []
    try:
        if ops[0] == "ctor":
            T = Tle(text)
        else:
            T = list(Tle.from_string(multi, error="raise"))[1]  # the middle entry of a three-entry text
        fields0 = _tle_fields(T)
        if T.name + "\n" + T.text != text and T.text != text:
            out.append(("source-text", "the Tle carries the text it was built from", text, str(T)))
        orbs = []  # [object, snapshot, edited?]
        for n_op, op in enumerate(ops[1:], 1):
            if op == "orbit":
                o = T.orbit()
                if any(o is x[0] for x in orbs):
                    out.append(("orbit-aliased", "every Tle.orbit() call returns a new Orbit object", "a new object",
                                f"the object returned earlier (operation #{n_op})"))
                else:
                    orbs.append([o, _orbit_snapshot(o), False])
            elif op == "edit-form-dv":
                o = orbs[-1][0]
                o.form = "cartesian"
                o[3:] = np.array(o[3:], dtype=float) + np.array([10.0, -5.0, 2.0])
                orbs[-1][1:] = [_orbit_snapshot(o), True]
            elif op == "edit-attrs":
                o = orbs[-1][0]
                # ONLY drag terms, counters and name: date and the six elements stay what the Tle says
                o.bstar = 1.5e-3
                o.ndot = 2.0e-4
                o.ndotdot = 6.0e-9
                o.revolutions = 5
                o.element_nb = 42
                o.name = "EDITED"
                orbs[-1][1:] = [_orbit_snapshot(o), True]
            elif op == "edit-element":
                o = orbs[-1][0]
                o[0] = float(o[0]) * 1.001 + 1e-3
                orbs[-1][1:] = [_orbit_snapshot(o), True]
            elif op == "write-last":
                o = orbs[-1][0]
                w = Tle.from_orbit(o)
                if not orbs[-1][2] and str(w) != text:
                    out.append(("write-last", "writing back an unedited orbit of the Tle reproduces its text", text, str(w)))
                if w is T:
                    out.append(("write-last-returns-source", "Tle.from_orbit builds a new Tle (never hands back the orbit's source Tle)",
                                "a new Tle", "the source Tle object"))
                # the written TLE parses back to the orbit's CURRENT fields (printed precision)
                cur = np.array(o.copy(form="TLE", frame="TEME"), dtype=float)
                back = np.array([w.i, w.Ω, w.e, w.ω, w.M, w.n], dtype=float)
                d2r = math.pi / 180
                half = [0.5e-4 * d2r, 0.5e-4 * d2r, 0.5e-7, 0.5e-4 * d2r, 0.5e-4 * d2r, 0.5e-8 * 2 * math.pi / 86400]
                bad6 = []
                for k in range(6):
                    diff = abs(back[k] - cur[k]) if k in (2, 5) else abs((back[k] - cur[k] + math.pi) % (2 * math.pi) - math.pi)
                    if not diff <= half[k] * (1 + 1e-6) + 1e-15:
                        bad6.append(k)

                def sig5(a, b):  # equal to 5 significant digits (implied-decimal fields)
                    return a == b or abs(a - b) <= 0.5000001e-4 * abs(b)

                cur_attrs = [o.bstar, o.ndot, o.ndotdot, o.revolutions, o.element_nb, o.name, str(o.date)]
                got_attrs = [w.bstar, w.ndot, w.ndotdot, w.revolutions, w.element_nb, w.name, str(w.epoch)]
                ok_attrs = (sig5(w.bstar, o.bstar) and abs(w.ndot - o.ndot) <= 1.0000001e-8 and sig5(w.ndotdot, o.ndotdot)
                            and w.revolutions == o.revolutions and w.element_nb == o.element_nb and w.name == (o.name or "")
                            and w.epoch == o.date)
                if bad6 or not ok_attrs:
                    out.append(("write-last-not-current-fields", "the TLE written from an orbit parses back to the orbit's CURRENT elements, "
                                "drag terms, counters, name and epoch", [cur.tolist()] + cur_attrs, [back.tolist()] + got_attrs))
            elif op == "roundtrip":
                w = Tle.from_orbit(T.orbit())
                if str(w) != text:
                    out.append(("roundtrip", "Tle.from_orbit(tle.orbit()) reproduces the text of the Tle, whatever was done to orbits obtained earlier",
                                text, str(w)))
            elif op == "inspect":
                pass
        # invariants at the end
        if _tle_fields(T) != fields0:
            out.append(("tle-changed", "text and fields of a Tle never change", fields0, _tle_fields(T)))
        o = T.orbit()
        snap = _orbit_snapshot(o)
        expected6 = [float(T.i), float(T.Ω), float(T.e), float(T.ω), float(T.M), float(T.n)]
        exp_data = [repr(x) for x in (T.bstar, T.ndot, T.ndotdot, T.name, T.cospar_id, T.norad_id, T.element_nb, T.revolutions, T.type)]
        if snap[0] != expected6 or snap[1] != "tle" or snap[2] != "TEME" or snap[3] != str(T.epoch) or snap[4:] != exp_data:
            out.append(("orbit-not-parsed-fields", "Tle.orbit() carries the parsed fields (TLE form, TEME, epoch, drag terms, identifiers)",
                        [expected6, "tle", "TEME", str(T.epoch)] + exp_data, snap))
        if any(o is x[0] for x in orbs):
            out.append(("orbit-aliased", "every Tle.orbit() call returns a new Orbit object", "a new object", "an object returned earlier"))
        for x, sn, _ in orbs:
            if _orbit_snapshot(x) != sn:
                out.append(("returned-orbit-changed", "an Orbit never changes after it has been returned (other than by its holder)", sn,
                            _orbit_snapshot(x)))
    except Exception as e:
        import traceback

        out.append(("raises-" + type(e).__name__, "every operation of the history succeeds", "no exception", repr(e) + traceback.format_exc()[-600:]))
    return out


def run_isolated(func, arg):
    """func(arg) in a forked child (pristine copy of this process); JSON result through a pipe."""
    import json
    import os
    import traceback

    r, w = os.pipe()
    pid = os.fork()
    if pid == 0:
        try:
            os.close(r)
            try:
                data = json.dumps(dict(result=func(arg)), default=repr)
            except BaseException:
                data = json.dumps(dict(harness_error=traceback.format_exc()))
            with os.fdopen(w, "w") as f:
                f.write(data)
        finally:
            os._exit(0)
    os.close(w)
    with os.fdopen(r) as f:
        data = f.read()
    os.waitpid(pid, 0)
    out = json.loads(data)
    if "harness_error" in out:
        raise RuntimeError("history child failed:\n" + out["harness_error"])
    return out["result"]


def _hist_texts():
    name, l1, l2 = build_text([0] * (NF - 1) + [1])  # base element set with the plain name line
    text = name + "\n" + l1 + "\n" + l2
    a = build_text([1] + [0] * (NF - 1))[1:]
    c = build_text([2] + [0] * (NF - 1))[1:]
    multi = "%s\n%s\n%s\nLAST\n%s\n%s" % (a[0], a[1], text, c[0], c[1])
    return text, multi


def _history_once(case, t, isolate):
    ops = list(case["ops"])
    text, multi = _hist_texts()
    arg = dict(ops=ops, text=text, multi=multi)
    found = run_isolated(exec_history, arg) if isolate else json_roundtrip(exec_history(arg))
    t.trans(len(ops))
    t.states_add(1)
    t.ev(tuple(ops) if len(ops) >= 3 else None)
    edited = any(o.startswith("edit") for o in ops)
    cls = "after-in-place-edit" if edited else "no-edit"
    for tail, clause, expected, observed in found:
        t.fail(f"tle/history/{tail}/{cls}", clause, dict(case, ops=ops, text=text), expected, observed, f"history {ops}")
    t.outcome(("hist", ops[0], cls, len(found) == 0))
    if len(ops) == 4 and edited and len(t.samples) < 2:
        t.sample(dict(part="hist", ops=ops))


def json_roundtrip(x):
    import json

    return json.loads(json.dumps(x, default=repr))


def check_history(case, t, isolate):
    """One history; a failing one is shrunk (greedy removal of operations, each candidate from the pristine state)."""
    from mc.engine import Tally, MAX_FAILS_PER_SIG

    if not isolate:
        _history_once(case, t, False)
        return
    probe = Tally()
    _history_once(case, probe, True)
    if probe.failures:
        sig = probe.failures[0]["signature"]
        if t.fail_counts.get(sig, 0) < MAX_FAILS_PER_SIG:
            ops = list(case["ops"])
            changed = True
            while changed:
                changed = False
                for k in range(1, len(ops)):
                    cand = ops[:k] + ops[k + 1:]
                    if not _hist_valid(cand):
                        continue
                    trial = Tally()
                    _history_once(dict(case, ops=cand), trial, True)
                    hit = [f for f in trial.failures if f["signature"] == sig]
                    if hit:
                        ops, changed = cand, True
                        probe.failures = hit[:1] + [f for f in probe.failures if f["signature"] != sig]
                        break
    t.merge(probe)


# ---------------------------------------------------------------------------
# scales: the written TLE does not depend on the time-scale label of the orbit's date

SCALE_EPOCHS = ["16124.55610684", "12100.51782528", "12264.25000000", "99365.99999999", "00001.00000000", "83200.51782528"]
SCALE_NAMES = ["TT", "GPS", "TAI"]  # offsets of whole microseconds: the relabelling is exact (UT1 / TDB are C03's business)


def scale_cases():
    return [dict(part="scales", epoch=e, scale=sc, via=via, config=dict(_CFG)) for e in SCALE_EPOCHS for sc in SCALE_NAMES
            for via in ("relabel", "copy-relabel")]


def check_scale(case, t):
    """tle.orbit() with its date re-expressed in another scale (same instant) must write the text of the UTC-dated orbit."""
    from mc.ref import tle_codec as tc
    from beyond.io.tle import Tle

    name, l1, l2 = build_text([0] * NF, case["epoch"])
    text = l1 + "\n" + l2
    t.states_add(1)
    t.ev((case["epoch"], case["scale"], case["via"]))
    try:
        orb = Tle(text).orbit()
        if case["via"] == "copy-relabel":
            orb = orb.copy()
        orb.date = orb.date.change_scale(case["scale"])
        w = Tle.from_orbit(orb)
        out = str(w)
        t.trans(3)
    except Exception as e:
        t.fail(f"tle/date-scale/{case['scale']}/raises", "an orbit dated in another time scale can be written as a TLE", case, text, repr(e))
        return
    t.outcome(("scales", case["scale"], out == text))
    if out == text:
        return
    o = out.split("\n")
    try:
        dec_in, dec_out = tc.decode(l1, l2), tc.decode(o[-2], o[-1])
        d_us = abs(tc.epoch_us(dec_out) - tc.epoch_us(dec_in))
        others_equal = all(dec_in[k] == dec_out[k] for k in dec_in if not k.startswith("epoch"))
    except Exception:
        d_us, others_equal = None, False
    t.fail(f"tle/date-scale/{case['scale']}/epoch-written-in-date-scale" if others_equal else f"tle/date-scale/{case['scale']}/fields-differ",
           "Tle.from_orbit writes the epoch in UTC whatever the time scale of the orbit's date (same instant -> same text)", case, text, out,
           f"epoch shift {d_us} us" if d_us is not None else "")


# ---------------------------------------------------------------------------
# fs: from_string on multi-entry texts

FS_KINDS = ["V2", "V3", "V0", "Vn", "Bc1", "Bc2", "Bl1", "Bl2", "B3", "C", "K"]
FS_MODES = ["ignore", "warn", "raise"]
_FS = {}


def _fs_entries():
    if _FS:
        return _FS
    a = build_text([0] * NF)[1:]
    b = build_text([1] + [0] * (NF - 1))[1:]
    c = build_text([2] + [0] * (NF - 1))[1:]
    d = build_text([0, 1] + [0] * (NF - 2))[1:]
    ib = NAMES.index("bstar")
    neg = [0] * NF
    neg[ib] = [v[0] for v in FIELDS[ib][1]].index("-25000+0")
    n_ = build_text(neg)[1:]  # valid entry whose B* has a negative mantissa and a '+' exponent

    def flip(line):  # wrong checksum digit
        return line[:68] + str((int(line[68]) + 1) % 10)

    _FS.update(
        V2=(["%s\n%s" % a], [("", a[0], a[1])]),
        V3=(["NAME B\n%s\n%s" % b], [("NAME B", b[0], b[1])]),
        V0=(["0 NAME C\n%s\n%s" % c], [("NAME C", c[0], c[1])]),
        Vn=(["%s\n%s" % n_], [("", n_[0], n_[1])]),
        Bc1=(["%s\n%s" % (flip(d[0]), d[1])], None),
        Bc2=(["%s\n%s" % (d[0], flip(d[1]))], None),
        Bl1=(["%s\n%s" % (d[0][:68], d[1])], None),
        Bl2=(["%s\n%s" % (d[0], d[1][:68])], None),
        B3=(["NAME D\n%s\n%s" % (d[0], flip(d[1]))], None),
        C=(["# a comment line"], []),
        K=([""], []),
    )
    return _FS


def check_fs(case, t):
    from beyond.io.tle import Tle

    ent = _fs_entries()
    kinds, mode = case["kinds"], case["mode"]
    text = "\n".join(ent[k][0][0] for k in kinds)
    expected, raised_expected = [], False
    for k in kinds:
        v = ent[k][1]
        if v is None:
            if mode == "raise":
                raised_expected = True
                break
            continue
        expected.extend(v)
    t.states_add(1)
    t.ev((tuple(kinds), mode) if kinds else None)
    got, raised = [], None
    try:
        for x in Tle.from_string(text, error=mode):
            t.trans(1)
            tl = x.text.split("\n")
            got.append((x.name, tl[0], tl[1]))
    except ValueError as e:
        raised = repr(e)
    except Exception as e:
        t.fail(f"tle/from_string/{mode}/raises-{type(e).__name__}", "from_string handles every multi-entry text", dict(case, text=text),
               expected, repr(e))
        return
    t.trans(1)
    has_bad = any(ent[k][1] is None for k in kinds)
    shape = "with-bad-entries" if has_bad else "all-valid"
    if [list(g) for g in got] != [list(e) for e in expected]:
        t.fail(f"tle/from_string/{mode}/wrong-entries/{shape}", "a multi-TLE text yields exactly its valid entries, in order", dict(case, text=text),
               expected, got)
    if bool(raised) != raised_expected:
        t.fail(f"tle/from_string/{mode}/{'unexpected-raise' if raised else 'no-raise'}/{shape}",
               "error='raise' raises on the first invalid entry; 'ignore'/'warn' never raise", dict(case, text=text), raised_expected, raised)
    t.outcome(("fs", mode, len(expected), bool(raised)))
    if len(kinds) == 3 and has_bad and len(t.samples) < 2:
        t.sample(dict(case, text=text, yielded=len(got)))
