"""C07 — SGP4 propagation equals the reference SGP4 theory.

Every TLE of a finite field alphabet (deviation-bounded product around the ISS
element set; the full product in the thorough tier) is written by the
independent codec `mc.ref.tle_codec`, parsed by the real `Tle`, turned into an
orbit and propagated by the real default propagator (`Sgp4`, which regenerates
the TLE text and drives the pure-Python port of the sgp4 package) and by the
native `Sgp4Beta`, at every date of the date alphabet.  The oracle is Vallado's
C++ implementation (`sgp4.api.Satrec`, accelerated build), called with the exact
offset in minutes from the epoch.
"""

import itertools
import math

PROPERTY = "C07"
CLAIM = dict(
    text="Exhaustive comparison of the real Tle -> Orbit -> Sgp4.propagate chain and of the native Sgp4Beta model with "
    "Vallado's compiled C++ SGP4/SDP4 (WGS-72) on every TLE of a finite alphabet chosen one value per visible branch "
    "(near-Earth / deep-space / resonant mean motions, e below and above the 1e-4 guards, all inclinations incl. "
    "critical, retrograde and near-equatorial, zero / negative / heavy drag, four epochs around the two-digit-year "
    "switch) times seven dates before and after epoch. Wrapper: position within |v| x 50 us, velocity within |a| x 50 us, "
    "metres, TEME, requested date. Native model: 1 cm wherever the reference uses its full near-Earth model.",
    note="Trusts sgp4.api.Satrec (C++ build, self-tested against Vallado's published verification output) as the "
    "theory, and mc.ref.tle_codec for writing the element sets. Dates are UTC-labelled (scale labels are C04's business). "
    "Nothing is claimed for element values outside the alphabets.",
    technique="exhaustive (deviation-bounded) product over finite TLE field and date alphabets on the real code vs. independent compiled reference implementation",
)
RULE = (
    "cases = (TLE index tuple over the 8 field alphabets, date offset, propagator); tuples within k deviations of the ISS base "
    "tuple (all tuples in the thorough tier); distinct by construction. non-trivial = a case where the reference returned a "
    "state (error code 0) and the library result was compared with it"
)
BOUNDS = {
    "quick": "all TLE tuples with <= 4 fields deviating from the ISS base tuple x 7 date offsets (+ one timedelta call per TLE)",
    "thorough": "the full product of the 8 field alphabets (8x7x8x5x3x3x3x5 = 302400 TLEs) x 7 date offsets",
}
ASSUMPTIONS = [
    "oracle = sgp4.api.Satrec accelerated C++ build, WGS-72, opsmode 'i', driven by exact minutes since epoch",
    "TLEs with perigee below the surface are dropped (counted); cases where the reference reports an error code are counted, not compared",
    "native model compared only where the reference record has method 'n' and perigee >= 220 km (isimp == 0), as the property states",
    "velocity tolerance of the native model (not given by the text) = 2 x (|v|/|r|) x 1 cm, the velocity amplitude of a bounded 1 cm relative motion",
]
NOT_COVERED = (
    "element values between the alphabet points, |dt| > 30 d, epochs outside 1973-2017, the 'a' (AFSPC) operation mode, "
    "non-UTC date labels (C04), Sgp4Beta outside the full near-Earth regime"
)

# ---------------------------------------------------------------------------
# alphabets (index 0 = base value, the ISS element set 25544 of 2016-05-03)

A_I = [51.6, 0.01, 28.5, 63.4, 90.0, 98.7, 144.0, 179.9]
A_E = [1e-3, 0.0, 5e-5, 0.1, 0.45, 0.7, 0.9]  # 0.45: most eccentric orbit of the full near-Earth regime (n = 6.5)
A_N = [15.5, 0.5, 1.0027, 2.0, 6.3, 6.5, 12.0, 16.5]
A_B = [1e-4, 0.0, 1e-5, -1e-5, 1e-2]
A_W = [87.7267, 0.0, 270.0]
A_O = [216.9905, 0.0, 359.9999]
A_M = [22.6472, 0.0, 180.0]
A_EP = ["16124.55610684", "73110.50000000", "99365.90000000", "00001.00000000", "17182.50000000"]
ALPHA = [A_I, A_E, A_N, A_B, A_W, A_O, A_M, A_EP]
NAMES = ["i", "e", "n", "bstar", "argp", "raan", "M", "epoch"]
# date offsets in microseconds
DTS = [-30 * 86400 * 10 ** 6, -86400 * 10 ** 6, -86400000, 0, 43200 * 10 ** 6, 86400 * 10 ** 6, 30 * 86400 * 10 ** 6]
TD_DT = 43200 * 10 ** 6  # offset also exercised through a timedelta argument

MU72 = 3.986008e14  # WGS-72, m^3/s^2 (only used to scale the velocity tolerance)
TIME_RES = 50e-6  # s, property text


def enum_tuples(bound):
    """All index tuples with at most `bound` non-base coordinates, in a fixed order."""
    nc = len(ALPHA)
    if bound >= nc:
        yield from itertools.product(*[range(len(a)) for a in ALPHA])
        return
    for k in range(bound + 1):
        for coords in itertools.combinations(range(nc), k):
            for alts in itertools.product(*[range(1, len(ALPHA[c])) for c in coords]):
                idx = [0] * nc
                for c, a in zip(coords, alts):
                    idx[c] = a
                yield tuple(idx)


def count_tuples(bound):
    nc = len(ALPHA)
    if bound >= nc:
        return math.prod(len(a) for a in ALPHA)
    n = 0
    for k in range(bound + 1):
        for coords in itertools.combinations(range(nc), k):
            n += math.prod(len(ALPHA[c]) - 1 for c in coords)
    return n


def units(tier, seed):
    bound = 4 if tier == "quick" else len(ALPHA)
    parts = 64 if tier == "quick" else 256
    return [({"eop": "pass"}, dict(bound=bound, part=(j + seed) % parts, parts=parts)) for j in range(parts)]


def setup(config):
    from beyond.config import config as bc
    from mc.ref import sgp4_ref

    bc.update({"eop": {"missing_policy": "pass"}})
    sgp4_ref.require_accelerated()


def run_unit(p, t):
    for j, idx in enumerate(enum_tuples(p["bound"])):
        if j % p["parts"] != p["part"]:
            continue
        check_tle(list(idx), DTS, ("wrapper", "native"), True, t)


def replay(case, t):
    check_tle(case["idx"], [case["dt_us"]], (case["which"],), case.get("timedelta", False), t)


# ---------------------------------------------------------------------------


def tle_lines(idx):
    from mc.ref import tle_codec as tc

    v = [ALPHA[c][k] for c, k in enumerate(idx)]
    f = dict(
        satnum="25544", desig="98067A", epoch=v[7], ndot=" .00003442", nddot=" 00000-0", bstar=tc.fmt_exp(repr(v[3])),
        elnum="999", i=tc.fmt_angle(repr(v[0])), raan=tc.fmt_angle(repr(v[5])), e=tc.fmt_ecc(repr(v[1])),
        argp=tc.fmt_angle(repr(v[4])), M=tc.fmt_angle(repr(v[6])), n=tc.fmt_n(repr(v[2])), revnum="99798",
    )
    return tc.encode(f)


def _bclass(b):
    return "bstar=0" if b == 0 else "bstar<=1e-4" if abs(b) <= 1e-4 else "bstar=1e-2"


def _dtclass(dt_us):
    a = abs(dt_us)
    return "epoch" if a == 0 else "dt<=1d" if a <= 86400 * 10 ** 6 else "dt=30d"


def _norm(x):
    return math.sqrt(sum(c * c for c in x))


def check_tle(idx, dts, which, with_timedelta, t):
    """All checks of one TLE at the given date offsets; also the single-case entry point of replay()."""
    import numpy as np
    from datetime import timedelta
    from mc.ref import sgp4_ref, tle_codec as tc
    from beyond.dates import Date
    from beyond.io.tle import Tle
    from beyond.propagators.sgp4 import Sgp4
    from beyond.propagators.sgp4beta import Sgp4Beta

    l1, l2 = tle_lines(idx)
    vals = {n: ALPHA[c][k] for c, (n, k) in enumerate(zip(NAMES, idx))}
    ref = sgp4_ref.Ref(l1, l2)
    ncases = len(dts) * len(which)
    if ref.perigee_km < 0.0:
        t.exclude("perigee below the surface (not a physical TLE)", ncases)
        return
    if ref.init_error:
        t.exclude("reference initialisation error %d" % ref.init_error, ncases)
        return
    epoch = tc.epoch_datetime(tc.decode(l1, l2))
    regime = "deep" if ref.method == "d" else "near-simple" if ref.isimp else "near-full"
    full = ref.full_near_earth()
    base_case = dict(idx=list(idx), tle=[l1, l2])

    # ---- the library side: parse, orbit, propagators (must succeed: the TLE is syntactically valid)
    try:
        orb = Tle(l1 + "\n" + l2).orbit()
        t.trans(2)
    except Exception as e:
        t.fail("sgp4/tle-to-orbit-raises", "a syntactically valid TLE yields an orbit", dict(base_case, dt_us=dts[0], which=which[0]),
               "Orbit", repr(e))
        return
    if "wrapper" in which and not isinstance(orb.propagator, Sgp4):
        t.fail("sgp4/default-propagator", "the default propagator of a TLE orbit is Sgp4", dict(base_case, dt_us=dts[0], which="wrapper"),
               "Sgp4", repr(type(orb.propagator)))
    beta = None
    if "native" in which and full is True:
        try:
            beta = Sgp4Beta()
            beta.orbit = Tle(l1 + "\n" + l2).orbit()
            t.trans(1)
        except Exception as e:
            t.fail("sgp4beta/init-raises/" + regime, "native model initialises on a near-Earth TLE",
                   dict(base_case, dt_us=dts[0], which="native"), "initialised", repr(e))
            beta = None

    for dt_us in dts:
        tsince = dt_us / 6e7  # minutes, exact to one rounding
        err, r_ref, v_ref = ref.state(tsince)
        date = Date(epoch) + timedelta(microseconds=dt_us)
        rn, vn = _norm(r_ref), _norm(v_ref)
        for w in which:
            t.states_add(1)
            case = dict(base_case, dt_us=dt_us, which=w)
            if w == "native" and full is not True:
                t.exclude("native model: reference not in its full near-Earth model (deep-space or perigee < 220 km)"
                          if full is False else "native model: perigee within 1 m of the 220 km switch")
                continue
            if err != 0:
                t.exclude("reference error code %d (%s)" % (err, sgp4_ref.ERRORS.get(err, "?")))
                t.outcome(("ref-error", err, regime, w))
                t.ev()
                continue
            # ---- execute the real code
            try:
                if w == "wrapper":
                    sv = orb.propagate(date)
                else:
                    sv = beta.propagate(date)
                t.trans(1)
            except Exception as e:
                t.ev((tuple(idx), dt_us, w))
                t.fail(f"{'sgp4' if w == 'wrapper' else 'sgp4beta'}/propagate-raises/{regime}/{_dtclass(dt_us)}",
                       "propagation returns a state where the reference does", case, [list(r_ref), list(v_ref)], repr(e))
                continue
            t.ev((tuple(idx), dt_us, w))
            x = np.array(sv, dtype=float)
            dr = _norm(x[:3] - np.array(r_ref))
            dv = _norm(x[3:] - np.array(v_ref))
            # frame / form / date of the result
            fr = getattr(sv.frame, "name", str(sv.frame))
            if fr != "TEME" or sv.form.name != "cartesian" or sv.date != date:
                t.fail(f"{'sgp4' if w == 'wrapper' else 'sgp4beta'}/result-labels", "result is cartesian, TEME, at the requested date",
                       case, ["TEME", "cartesian", str(date)], [fr, sv.form.name, str(sv.date)])
            if w == "wrapper":
                acc = MU72 / rn ** 2
                tol_r = vn * TIME_RES + 1e-6
                tol_v = acc * TIME_RES + 1e-9
                ok_r = t.margin("wrapper |dr| vs |v|*50us+1um", dr, tol_r, case)
                ok_v = t.margin("wrapper |dv| vs |a|*50us+1nm/s", dv, tol_v, case)
                if not (ok_r and ok_v) or not np.all(np.isfinite(x)):
                    t.fail(f"sgp4/vs-reference/{regime}/{_dtclass(dt_us)}",
                           "default propagator returns the reference SGP4/SDP4 state within |v| x 50 us (m, m/s, TEME)", case,
                           [list(r_ref), list(v_ref)], x, f"|dr|={dr:.3e} m (tol {tol_r:.3e}), |dv|={dv:.3e} m/s (tol {tol_v:.3e}); {vals}")
                t.outcome(("wrapper", regime, _dtclass(dt_us), bool(ok_r and ok_v)))
            else:
                bc = _bclass(vals["bstar"])
                tol_r = 0.01
                tol_v = 2.0 * (vn / rn) * 0.01
                ok_r = t.margin(f"native |dr| vs 1 cm ({bc})", dr, tol_r, case)
                ok_v = t.margin(f"native |dv| vs 2|v|/|r| x 1 cm ({bc})", dv, tol_v, case)
                if not ok_r or not np.all(np.isfinite(x)):
                    mag = "lt1m" if dr < 1.0 else "ge1m"  # magnitude class: keeps a gross error apart from a centimetre-level one
                    t.fail(f"sgp4beta/vs-reference/{bc}/{_dtclass(dt_us)}/{mag}",
                           "native SGP4 equals the reference within 1 cm in the reference's full near-Earth regime", case,
                           [list(r_ref), list(v_ref)], x, f"|dr|={dr:.4f} m, |dv|={dv:.3e} m/s; {vals}; perigee {ref.perigee_km:.1f} km, "
                           f"period {ref.period_min:.1f} min")
                elif not ok_v:
                    t.fail(f"sgp4beta/velocity/{bc}/{_dtclass(dt_us)}",
                           "native SGP4 velocity consistent with a 1 cm position agreement", case, list(v_ref), x[3:],
                           f"|dv|={dv:.3e} m/s (tol {tol_v:.3e})")
                t.outcome(("native", bc, _dtclass(dt_us), bool(ok_r)))
            if dt_us == DTS[-1] and sum(idx) <= 1:
                t.sample(dict(case, dr=dr, dv=dv, regime=regime))

        # ---- timedelta argument: same result as the Date argument (one offset per TLE)
        if with_timedelta and dt_us == TD_DT and err == 0:
            for w in which:
                if w == "native" and beta is None:
                    continue
                case = dict(base_case, dt_us=dt_us, which=w, timedelta=True)
                p = orb if w == "wrapper" else beta
                try:
                    a = np.array(p.propagate(date), dtype=float)
                    sv_b = p.propagate(timedelta(microseconds=dt_us))
                    b = np.array(sv_b, dtype=float)
                    t.trans(2)
                except Exception as e:
                    t.fail(f"{'sgp4' if w == 'wrapper' else 'sgp4beta'}/timedelta-raises", "a timedelta argument is accepted", case, None, repr(e))
                    continue
                t.ev((tuple(idx), "td", w))
                t.states_add(1)
                if not np.array_equal(a, b) or sv_b.date != date:
                    t.fail(f"{'sgp4' if w == 'wrapper' else 'sgp4beta'}/timedelta-differs",
                           "propagate(timedelta) equals propagate(epoch + timedelta)", case, a, b, f"dates {date} / {sv_b.date}")
