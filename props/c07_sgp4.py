"""C07 — SGP4 propagation equals the reference SGP4 theory.

Two explorations of the real code, one oracle (Vallado's C++ implementation,
`sgp4.api.Satrec` accelerated build, called with the exact offset in minutes
from the epoch):

* product  every TLE of a finite field alphabet (deviation-bounded product around the ISS element
           set) is written by the independent codec `mc.ref.tle_codec`, parsed by the real `Tle`,
           turned into an orbit and propagated by the default propagator (`Sgp4`: regenerates the
           TLE text and drives the pure-Python port of the sgp4 package) and by the native
           `Sgp4Beta`, at every date of the date alphabet.  The alphabets hold one value on each side
           of (and exactly on) every visible guard: i = 0 / 180 exactly, e = 0 and around 1e-4,
           B* = 0, angles 0 / 359.9999, perigee just above / below 220, 156, 98 km, period around
           225 min.  TLEs are executed one after another in a long-lived process (an incidental long
           history); a failing case records the units the process executed before it, and replay
           re-executes them.
* mod      orbits obtained from Tle.orbit() (or a copy) and modified (B*, M, e, epoch) or relabelled (epoch in TT /
           GPS / TAI, same instant) BEFORE their propagator is initialised, propagated by Date (UTC or relabelled) and
           timedelta: the state is the reference state of the element set the orbit stands for NOW.
* hist     explicit-state part: every history up to a small depth of {bind propagator slot to an orbit
           of TLE A/B/C, propagate a slot (by Date or timedelta), copy a propagator, propagate through a
           fresh Orbit or an Orbit copy, mutate a returned state in place (frame / form setter,
           coordinate write)}, for both propagators; besides the value of the final state: no two calls
           return the same object, no returned object changes afterwards; each history executed from the pristine just-imported
           library state (forked child of a worker that never executes library code itself).  The
           oracle is the reference state of the TLE the propagated orbit was built from, whatever
           happened before.
"""

import itertools
import json
import math
import os
import traceback

PROPERTY = "C07"
CLAIM = dict(
    text="Exhaustive comparison of the real Tle -> Orbit -> Sgp4.propagate chain and of the native Sgp4Beta model with "
    "Vallado's compiled C++ SGP4/SDP4 (WGS-72) on every TLE within a deviation bound of the ISS element set over alphabets "
    "holding one value on each side of every visible guard (near-Earth / deep-space / resonant mean motions and the 225 min "
    "switch, e = 0, around 1e-4 and up to 0.9, perigee around the 220 / 156 / 98 km switches, i = 0 and 180 exactly, critical, "
    "retrograde, zero / negative / heavy drag, epochs around the two-digit-year switch) times seven dates before and after "
    "epoch; plus explicit-state exploration of every short history of propagator initialisations, re-assignments, copies and "
    "propagations over three element sets of one object, each from the pristine library state. Wrapper: position within "
    "|v| x 50 us, velocity within |a| x 50 us, metres, TEME, requested date. Native model: 1 cm wherever the reference uses "
    "its full near-Earth model. The expected state never depends on the history.",
    note="Trusts sgp4.api.Satrec (C++ build, self-tested against Vallado's published verification output) as the "
    "theory, and mc.ref.tle_codec for writing the element sets. Dates are UTC-labelled (scale labels are C04's business). "
    "Nothing is claimed for element values outside the alphabets or histories beyond the depth bound.",
    technique="deviation-bounded exhaustive product over TLE field/date alphabets + explicit-state search over propagator operation histories (fork-isolated) on the real code vs. independent compiled reference implementation",
)
RULE = (
    "product: cases = (TLE index tuple over the 8 field alphabets, date offset, propagator); tuples within k deviations of the ISS "
    "base tuple; distinct by construction; non-trivial = the reference returned a state (error code 0) and the library result was "
    "compared with it. hist: one case per operation history ending in a propagation (slot-renaming symmetry removed, histories "
    "using an unbound slot pruned); the final propagation is compared; non-trivial = history of >= 2 operations"
)
BOUNDS = {
    "quick": "product: all TLE tuples with <= 3 deviating fields x 7 date offsets (+ one timedelta call per TLE); hist: all histories of <= 4 operations (Sgp4, alphabet of 18 operations, 11 370 histories) / <= 4 operations (Sgp4Beta, 10 operations, 762 histories); mod: 3 element sets x 5 modifications x in-place/copy x epoch scale {UTC, TT, GPS; TAI, TT under real IERS tables} x 3 call forms x 2 dates, both propagators; alias family (one propagator, prop by Date / timedelta, in-place mutation of returned states): <= 5 operations (3 800 histories per propagator)",
    "thorough": "product: <= 5 deviating fields; hist: <= 4 operations (Sgp4, 11 370 histories) / <= 6 (Sgp4Beta, 79 062 histories); alias family <= 5 operations",
}
ASSUMPTIONS = [
    "oracle = sgp4.api.Satrec accelerated C++ build, WGS-72, opsmode 'i', driven by exact minutes since epoch",
    "TLEs with perigee below the surface are dropped (counted); cases where the reference reports an error code are counted, not compared",
    "native model compared only where the reference record has method 'n' and perigee >= 220 km (isimp == 0), as the property states",
    "velocity tolerance of the native model (not given by the text) = 2 x (|v|/|r|) x 1 cm, the velocity amplitude of a bounded 1 cm relative motion",
    "native tolerance = 1 cm + 8 x 2^-53 x kappa, kappa = measured sensitivity of the REFERENCE state to relative perturbations of n, e, B* "
    "(sum of |dr| per unit relative perturbation): round-off of an equally valid evaluation order; negligible (< 1 mm) except where the "
    "drag series is extrapolated to a diverging orbit (B* = 1e-2, 30 d: reference radius up to 1e6 km), observed |dr| there = 3.2 x 2^-53 x kappa",
    "wrapper tolerance = 50 us x max(|v|, L) + 1 um, L = Lipschitz constant of the reference position in time measured on the reference itself "
    "(largest 10 us step rate over +-50 us; likewise |a| for the velocity): identical to |v| x 50 us wherever the theory is smooth; for deep-space "
    "records at i = 180 deg exactly SDP4's position moves 4x faster than its velocity output and jumps by 0.15-0.3 m between neighbouring instants "
    "(division by sin(pi) ~ 1e-16 in dpper; C++ and Python ports agree at identical instants)",
    "hist: os.fork() of a worker process that has imported but never executed the library gives the pristine state; a replay process is in the same state",
]
NOT_COVERED = (
    "element values between the alphabet points, |dt| > 30 d, epochs outside 1973-2017, the 'a' (AFSPC) operation mode, "
    "non-UTC date labels (C04), Sgp4Beta outside the full near-Earth regime, histories longer than the depth bound or over more "
    "than three element sets / two propagator objects, concurrent (threaded) use"
)

# ---------------------------------------------------------------------------
# alphabets (index 0 = base value, the ISS element set 25544 of 2016-05-03)


def PERI(km):
    """Symbolic eccentricity: the 7-digit e that puts the reference's perigee altitude at `km` for the TLE's n and i."""
    return ("perigee", km)


A_I = [51.6, 0.0, 0.01, 28.5, 63.4, 90.0, 98.7, 144.0, 179.9, 180.0]
A_E = [1e-3, 0.0, 5e-5, 0.0000999, 0.0001, 0.0001001, 0.1, 0.45, 0.7, 0.9,
       PERI(220.5), PERI(219.5), PERI(156.5), PERI(155.5), PERI(98.5), PERI(97.5)]
A_N = [15.5, 0.5, 1.0027, 2.0, 6.3, 6.38, 6.4, 6.42, 6.5, 12.0, 16.5]  # 6.4 rev/d = 225.0 min
A_B = [1e-4, 0.0, 1e-5, -1e-5, 1e-2]
A_W = [87.7267, 0.0, 270.0, 359.9999]
A_O = [216.9905, 0.0, 359.9999]
A_M = [22.6472, 0.0, 180.0, 359.9999]
A_EP = ["16124.55610684", "73110.50000000", "99365.90000000", "00001.00000000", "17182.50000000"]
ALPHA = [A_I, A_E, A_N, A_B, A_W, A_O, A_M, A_EP]
NAMES = ["i", "e", "n", "bstar", "argp", "raan", "M", "epoch"]
# date offsets in microseconds
DTS = [-30 * 86400 * 10 ** 6, -86400 * 10 ** 6, -86400000, 0, 43200 * 10 ** 6, 86400 * 10 ** 6, 30 * 86400 * 10 ** 6]
TD_DT = 43200 * 10 ** 6  # offset also exercised through a timedelta argument

MU72 = 3.986008e14  # WGS-72, m^3/s^2 (only used to scale the velocity tolerance)
RE72 = 6378.135  # km
TIME_RES = 50e-6  # s, property text


def enum_tuples(bound):
    """All index tuples with at most `bound` non-base coordinates, in a fixed order."""
    nc = len(ALPHA)
    if bound >= nc:
        yield from itertools.product(*[range(len(a)) for a in ALPHA])
        return
    for k in range(bound + 1):
        for coords in itertools.combinations(range(nc), k):
            for alts in itertools.product(*[range(1, len(ALPHA[c])) for c in coords]):
                idx = [0] * nc
                for c, a in zip(coords, alts):
                    idx[c] = a
                yield tuple(idx)


def count_tuples(bound):
    nc = len(ALPHA)
    if bound >= nc:
        return math.prod(len(a) for a in ALPHA)
    n = 0
    for k in range(bound + 1):
        for coords in itertools.combinations(range(nc), k):
            n += math.prod(len(ALPHA[c]) - 1 for c in coords)
    return n


# ---------------------------------------------------------------------------
# units

CFG_PRODUCT = {"eop": "pass", "part": "product"}
CFG_MOD_REAL = {"eop": "real", "part": "hist"}  # real IERS tables (TAI-UTC = leap seconds), same isolation discipline
CFG_HIST = {"eop": "pass", "part": "hist"}  # own worker group: these workers never execute library code themselves


def units(tier, seed):
    bound = 3 if tier == "quick" else 5
    parts = 48 if tier == "quick" else 384
    u = [(CFG_PRODUCT, dict(part="product", bound=bound, j=(j + seed) % parts, parts=parts)) for j in range(parts)]
    depth = {"wrapper": 4, "native": 4} if tier == "quick" else {"wrapper": 4, "native": 6}
    adepth = 5  # both tiers (depth 6 costs 10 CPU-minutes for little)
    for kind in ("wrapper", "native"):
        hparts = 16 if tier == "quick" else 64
        for j in range(hparts):
            u.append((CFG_HIST, dict(part="hist", kind=kind, family="multi", depth=depth[kind], j=j, parts=hparts)))
        aparts = 8 if tier == "quick" else 32
        for j in range(aparts):
            u.append((CFG_HIST, dict(part="hist", kind=kind, family="alias", depth=adepth, j=j, parts=aparts)))
    # modified / relabelled orbits (fork-isolated like the histories); TAI needs real leap seconds: own configuration
    for cfg, scales in ((CFG_HIST, ["UTC", "TT", "GPS"]), (CFG_MOD_REAL, ["TAI", "TT"])):
        for kind in ("wrapper", "native"):
            for x in "ABC":
                u.append((cfg, dict(part="mod", kind=kind, tle=x, scales=scales)))
    return u


_CFGNOW = {}
_PROC = []  # product payloads this process has started, in order (the process history of a product case)


def setup(config):
    from beyond.config import config as bc
    from mc.ref import sgp4_ref

    if (config or {}).get("eop") == "real":
        from mc import engine

        pole = os.path.join(engine.repo_path(), "tests", "data", "pole")
        if not os.path.isdir(pole):
            pole = "/repo/tests/data/pole"
        bc.update({"eop": {"folder": pole, "type": "all", "missing_policy": "pass"}})
        from beyond.dates.eop import EopDb

        if EopDb.get(57511.5).tai_utc != 36:
            raise RuntimeError("harness: real EOP tables not active")
    else:
        bc.update({"eop": {"missing_policy": "pass"}})
    _CFGNOW.clear()
    _CFGNOW.update(config or CFG_HIST)
    sgp4_ref.require_accelerated()
    # import (not execute) everything the histories need, so that forked children do not pay for it
    import numpy  # noqa
    from beyond.dates import Date  # noqa
    from beyond.io.tle import Tle  # noqa
    from beyond.propagators.sgp4 import Sgp4  # noqa
    from beyond.propagators.sgp4beta import Sgp4Beta  # noqa
    # warm-up of machinery that is not under test here and is lazily initialised on first use (EOP entry-point scan of
    # Date, lazy imports): done once per process -- workers and replay alike -- so that "pristine" means: no Tle, Orbit
    # or propagator code has run yet.
    import _strptime  # noqa
    import sgp4.model  # noqa
    import beyond.propagators.j2, beyond.propagators.kepler, beyond.propagators.keplernum, beyond.propagators.none  # noqa
    Date(2000, 1, 1)


def run_unit(p, t):
    if p["part"] == "product":
        _PROC.append(dict(p))
        for j, idx in enumerate(enum_tuples(p["bound"])):
            if j % p["parts"] == p["j"]:
                check_tle(list(idx), t)
    elif p["part"] == "mod":
        for case in mod_cases(p["kind"], p["tle"], p["scales"]):
            check_mod(case, t, isolate=True)
    else:
        for j, ops in enumerate(enum_histories(p["kind"], p["depth"], p["family"])):
            if j % p["parts"] == p["j"]:
                check_history(dict(part="hist", kind=p["kind"], family=p["family"], ops=ops), t, isolate=True)


def replay(case, t):
    from mc.engine import Tally

    if case.get("part") == "hist":
        check_history(case, t, isolate=False)
        return
    if case.get("part") == "mod":
        check_mod(case, t, isolate=False)
        return
    # product: bring the process into the state it had (every unit it ran before, then the TLEs of the
    # current unit that precede the case), then run the TLE of the case
    proc = case.get("proc") or []
    scratch = Tally()
    for p in proc[:-1]:
        for j, idx in enumerate(enum_tuples(p["bound"])):
            if j % p["parts"] == p["j"]:
                check_tle(list(idx), scratch)
    if proc:
        p = proc[-1]
        for j, idx in enumerate(enum_tuples(p["bound"])):
            if j % p["parts"] == p["j"]:
                if list(idx) == list(case["idx"]):
                    break
                check_tle(list(idx), scratch)
    _PROC[:] = [dict(p) for p in proc]
    check_tle(case["idx"], t)


# ---------------------------------------------------------------------------
# TLE text of an index tuple


def resolve(idx):
    """Index tuple -> field values (symbolic eccentricities resolved against the reference), or None if infeasible."""
    from mc.ref import sgp4_ref

    v = [ALPHA[c][k] for c, k in enumerate(idx)]
    if isinstance(v[1], tuple):
        target = v[1][1]
        e = 0.0
        for _ in range(4):
            ref = sgp4_ref.Ref(*_encode(v[:1] + [e] + v[2:]))
            e_new = 1.0 - (1.0 + target / RE72) / ref.a_er
            if not (0.0 <= e_new <= 0.9):
                return None
            e = round(e_new, 7)
        v[1] = e
    return v


def _encode(v):
    from mc.ref import tle_codec as tc

    f = dict(
        satnum="25544", desig="98067A", epoch=v[7], ndot=" .00003442", nddot=" 00000-0", bstar=tc.fmt_exp(repr(v[3])),
        elnum="999", i=tc.fmt_angle(repr(v[0])), raan=tc.fmt_angle(repr(v[5])), e=tc.fmt_ecc(repr(v[1])),
        argp=tc.fmt_angle(repr(v[4])), M=tc.fmt_angle(repr(v[6])), n=tc.fmt_n(repr(v[2])), revnum="99798",
    )
    return tc.encode(f)


def tle_lines(idx):
    v = resolve(idx)
    return None if v is None else _encode(v)


def _bclass(b):
    return "bstar=0" if b == 0 else "bstar<=1e-4" if abs(b) <= 1e-4 else "bstar=1e-2"


def _dtclass(dt_us):
    a = abs(dt_us)
    return "epoch" if a == 0 else "dt<=1d" if a <= 86400 * 10 ** 6 else "dt=30d"


def _norm(x):
    return math.sqrt(sum(c * c for c in x))


def _regime(ref):
    return "deep" if ref.method == "d" else "near-simple" if ref.isimp else "near-full"


EPS = 2.0 ** -53
COND_FACTOR = 8.0  # round-off allowance of the native comparison = 8 x 2^-53 x kappa (see ASSUMPTIONS)


def judge(w, x, ref, tsince, r_ref, v_ref, t, case, sig, bc, detail):
    """Compare one library state `x` (6 floats) with the reference state (r_ref, v_ref) of record `ref` at `tsince` minutes;
    record margins / failure under signature `sig`.  Returns True when within tolerance."""
    import numpy as np

    x = np.array(x, dtype=float)
    rn, vn = _norm(r_ref), _norm(v_ref)
    dr = _norm(x[:3] - np.array(r_ref))
    dv = _norm(x[3:] - np.array(v_ref))
    finite = bool(np.all(np.isfinite(x)))
    if w == "wrapper":
        # time resolution x Lipschitz constant of the reference in time.  The constant is |v| (resp. |a|) for a smooth model;
        # it is measured on the reference itself (largest 10 us step rate over +-50 us) because SDP4's position is neither the
        # integral of its velocity output nor continuous at the decimetre level where its lunar-solar periodics divide by
        # sin i (i = 180 deg exactly).
        fd_r, fd_v = ref.rates(tsince, TIME_RES)
        acc = MU72 / rn ** 2
        rate_r, rate_v = max(vn, fd_r), max(acc, fd_v)
        if fd_r > 1.05 * vn or fd_v > 1.05 * acc:
            t.outcome(("wrapper-reference-rate-exceeds-velocity", _regime(ref)))
            t.exclude("(not excluded, counted) wrapper cases judged with the reference's own finite-difference rate because it exceeds |v| / |a| by > 5 %")
        tol_r = rate_r * TIME_RES + 1e-6
        tol_v = rate_v * TIME_RES + 1e-9
        ok_r = t.margin("wrapper |dr| vs rate*50us+1um", dr, tol_r, case)
        ok_v = t.margin("wrapper |dv| vs rate*50us+1nm/s", dv, tol_v, case)
        if not (ok_r and ok_v and finite):
            t.fail(sig, "default propagator returns the reference SGP4/SDP4 state of its TLE within |v| x 50 us (m, m/s, TEME)", case,
                   [list(r_ref), list(v_ref)], x, f"|dr|={dr:.3e} m (tol {tol_r:.3e}), |dv|={dv:.3e} m/s (tol {tol_v:.3e}); {detail}")
            return False
        return True
    # native: 1 cm (property) + round-off x conditioning of the theory at this point
    kr, kv = ref.conditioning(tsince)
    tol_r = 0.01 + COND_FACTOR * EPS * kr
    tol_v = 2.0 * (vn / rn) * 0.01 + COND_FACTOR * EPS * kv
    cond = "well-conditioned" if COND_FACTOR * EPS * kr < 1e-3 else "ill-conditioned"
    ok_r = t.margin(f"native |dr| vs 1 cm + 8 eps kappa ({bc}, {cond})", dr, tol_r, case)
    ok_v = t.margin(f"native |dv| vs 2|v|/|r| x 1 cm + 8 eps kappa_v ({bc}, {cond})", dv, tol_v, case)
    if not ok_r or not finite:
        mag = "lt1m" if dr < 1.0 else "ge1m"  # magnitude class: keeps a gross error apart from a centimetre-level one
        t.fail(f"{sig}/{mag}", "native SGP4 equals the reference within 1 cm in the reference's full near-Earth regime", case,
               [list(r_ref), list(v_ref)], x, f"|dr|={dr:.4f} m (tol {tol_r:.4f}), |dv|={dv:.3e} m/s; {detail}")
        return False
    if not ok_v:
        t.fail(sig.replace("vs-reference", "velocity"), "native SGP4 velocity consistent with a 1 cm position agreement", case,
               list(v_ref), x[3:], f"|dv|={dv:.3e} m/s (tol {tol_v:.3e}); {detail}")
        return False
    return True


# ---------------------------------------------------------------------------
# product part


def check_tle(idx, t):
    """All checks of one TLE (7 date offsets, both propagators, one timedelta call each)."""
    import numpy as np
    from datetime import timedelta
    from mc.ref import sgp4_ref, tle_codec as tc
    from beyond.dates import Date
    from beyond.io.tle import Tle
    from beyond.propagators.sgp4 import Sgp4
    from beyond.propagators.sgp4beta import Sgp4Beta

    which = ("wrapper", "native")
    dts = DTS
    ncases = len(dts) * len(which)
    v = resolve(idx)
    if v is None:
        t.exclude("perigee target not attainable with 0 <= e <= 0.9 for this mean motion", ncases)
        return
    l1, l2 = _encode(v)
    vals = dict(zip(NAMES, v))
    ref = sgp4_ref.Ref(l1, l2)
    if ref.perigee_km < 0.0:
        t.exclude("perigee below the surface (not a physical TLE)", ncases)
        return
    if ref.init_error:
        t.exclude("reference initialisation error %d" % ref.init_error, ncases)
        return
    epoch = tc.epoch_datetime(tc.decode(l1, l2))
    regime = _regime(ref)
    full = ref.full_near_earth()
    base_case = dict(part="product", idx=list(idx), tle=[l1, l2], proc=[dict(p) for p in _PROC])
    detail = f"{vals}; perigee {ref.perigee_km:.2f} km, period {ref.period_min:.2f} min"

    # ---- the library side: parse, orbit, propagators (must succeed: the TLE is syntactically valid)
    try:
        orb = Tle(l1 + "\n" + l2).orbit()
        t.trans(2)
    except Exception as e:
        t.fail("sgp4/tle-to-orbit-raises", "a syntactically valid TLE yields an orbit", dict(base_case, dt_us=dts[0], which=which[0]),
               "Orbit", repr(e))
        return
    if not isinstance(orb.propagator, Sgp4):
        t.fail("sgp4/default-propagator", "the default propagator of a TLE orbit is Sgp4", dict(base_case, dt_us=dts[0], which="wrapper"),
               "Sgp4", repr(type(orb.propagator)))
    beta = None
    if full is True:
        try:
            beta = Sgp4Beta()
            beta.orbit = Tle(l1 + "\n" + l2).orbit()
            t.trans(1)
        except Exception as e:
            t.fail("sgp4beta/init-raises/" + regime, "native model initialises on a near-Earth TLE",
                   dict(base_case, dt_us=dts[0], which="native"), "initialised", repr(e))
            beta = None

    for dt_us in dts:
        tsince = dt_us / 6e7  # minutes, exact to one rounding
        err, r_ref, v_ref = ref.state(tsince)
        date = Date(epoch) + timedelta(microseconds=dt_us)
        for w in which:
            t.states_add(1)
            case = dict(base_case, dt_us=dt_us, which=w)
            if w == "native" and (full is not True or beta is None):
                if full is not True:
                    t.exclude("native model: reference not in its full near-Earth model (deep-space or perigee < 220 km)"
                              if full is False else "native model: perigee within 1 m of the 220 km switch")
                continue
            if err != 0:
                t.exclude("reference error code %d (%s)" % (err, sgp4_ref.ERRORS.get(err, "?")))
                t.outcome(("ref-error", err, regime, w))
                t.ev()
                continue
            # ---- execute the real code
            lib = "sgp4" if w == "wrapper" else "sgp4beta"
            try:
                sv = orb.propagate(date) if w == "wrapper" else beta.propagate(date)
                t.trans(1)
            except Exception as e:
                t.ev((tuple(idx), dt_us, w))
                t.fail(f"{lib}/propagate-raises/{regime}/{_dtclass(dt_us)}",
                       "propagation returns a state where the reference does", case, [list(r_ref), list(v_ref)], repr(e))
                continue
            t.ev((tuple(idx), dt_us, w))
            x = np.array(sv, dtype=float)
            # frame / form / date of the result
            fr = getattr(sv.frame, "name", str(sv.frame))
            if fr != "TEME" or sv.form.name != "cartesian" or sv.date != date:
                t.fail(f"{lib}/result-labels", "result is cartesian, TEME, at the requested date",
                       case, ["TEME", "cartesian", str(date)], [fr, sv.form.name, str(sv.date)])
            bc = _bclass(vals["bstar"])
            if w == "wrapper":
                ok = judge(w, x, ref, tsince, r_ref, v_ref, t, case, f"sgp4/vs-reference/{regime}/{_dtclass(dt_us)}", bc, detail)
            else:
                ok = judge(w, x, ref, tsince, r_ref, v_ref, t, case, f"sgp4beta/vs-reference/{bc}/{_dtclass(dt_us)}", bc, detail)
            t.outcome((w, regime, bc if w == "native" else "", _dtclass(dt_us), ok))
            if dt_us == DTS[-1] and sum(idx) <= 1:
                t.sample({k: v_ for k, v_ in case.items() if k != "proc"})

        # ---- timedelta argument: same result as the Date argument (one offset per TLE)
        if dt_us == TD_DT and err == 0:
            for w in which:
                if w == "native" and beta is None:
                    continue
                lib = "sgp4" if w == "wrapper" else "sgp4beta"
                case = dict(base_case, dt_us=dt_us, which=w, timedelta=True)
                p = orb if w == "wrapper" else beta
                try:
                    a = np.array(p.propagate(date), dtype=float)
                    sv_b = p.propagate(timedelta(microseconds=dt_us))
                    b = np.array(sv_b, dtype=float)
                    t.trans(2)
                except Exception as e:
                    t.fail(f"{lib}/timedelta-raises", "a timedelta argument is accepted", case, None, repr(e))
                    continue
                t.ev((tuple(idx), "td", w))
                t.states_add(1)
                if not np.array_equal(a, b) or sv_b.date != date:
                    t.fail(f"{lib}/timedelta-differs", "propagate(timedelta) equals propagate(epoch + timedelta)", case, a, b,
                           f"dates {date} / {sv_b.date}")


# ---------------------------------------------------------------------------
# hist part: explicit-state search over operation histories

# element sets of ONE object (same catalogue number, same epoch), as index tuples of the alphabets
H_TLES = {
    "wrapper": {"A": (0, 0, 0, 0, 0, 0, 0, 0), "B": (6, 6, 9, 2, 1, 1, 2, 0), "C": (4, 8, 3, 0, 2, 2, 0, 0)},  # ISS-like, n=12 e=0.1 SSO-like, Molniya-like deep-space
    "native": {"A": (0, 0, 0, 0, 0, 0, 0, 0), "B": (6, 6, 9, 2, 1, 1, 2, 0), "C": (1, 2, 0, 4, 0, 0, 0, 0)},  # C: equatorial, e < 1e-4, heavy drag
}
H_DTS = {"d1": 43200 * 10 ** 6, "d2": -86400 * 10 ** 6}


def _ops(kind, family="multi"):
    if family == "alias":
        # one propagator, two element sets; propagation by Date and by the equivalent timedelta; in-place mutation of the
        # state returned last (frame setter, form setter, coordinate write)
        return ([["assign", 0, x] for x in "AB"] + [["prop", 0, d] for d in ("d1", "d2")] + [["propt", 0, d] for d in ("d1", "d2")]
                + [["mut", 0, how] for how in ("frame", "form", "write")])
    ops = [["assign", s, x] for s in (0, 1) for x in "ABC"] + [["prop", s, d] for s in (0, 1) for d in ("d1", "d2")]
    if kind == "wrapper":
        ops += [["copy", s] for s in (0, 1)]
        ops += [["oprop", x, "d1"] for x in "ABC"] + [["ocopy", x, "d1"] for x in "ABC"]
    return ops


CHECK_OPS = ("prop", "propt", "oprop", "ocopy")


def enum_histories(kind, depth, family="multi"):
    """All valid histories of 1..depth operations ending in a propagation; slot 0 is the first slot used."""
    ops = _ops(kind, family)

    def rec(hist, slots, used1, have_result):
        # slots[s]: None = no object, "" = unbound object, "A"/"B"/"C" = bound; have_result[s]: slot s returned a state
        for op in ops:
            name = op[0]
            s = op[1] if name in ("assign", "prop", "propt", "copy", "mut") else None
            if s == 1 and not used1 and slots[0] is None:
                continue  # symmetry: the first slot touched is slot 0
            if name in ("prop", "propt") and not slots[s]:
                continue
            if name == "copy" and slots[s] is None:
                continue
            if name == "mut" and not have_result[s]:
                continue
            h2 = hist + [op]
            if name in CHECK_OPS:
                yield h2
            if len(h2) < depth:
                s2, r2 = list(slots), list(have_result)
                if name == "assign":
                    s2[s] = op[2]
                elif name == "copy":
                    s2[1 - s] = ""
                elif name in ("prop", "propt"):
                    r2[s] = True
                yield from rec(h2, s2, used1 or s == 1, r2)

    yield from rec([], [None, None], False, [False, False])


def _snapshot(sv):
    import numpy as np

    return ([float(c) for c in np.array(sv, dtype=float)], getattr(sv.frame, "name", str(sv.frame)), sv.form.name, str(sv.date))


def exec_history(arg):
    """Run in the pristine library state: execute the operations; return the observation of the last one plus the
    identity / immutability observations on every state object returned during the history."""
    import numpy as np
    from datetime import datetime, timedelta
    from beyond.dates import Date
    from beyond.io.tle import Tle
    from beyond.propagators.sgp4 import Sgp4
    from beyond.propagators.sgp4beta import Sgp4Beta

    kind, ops, texts, epoch_iso = arg["kind"], arg["ops"], arg["texts"], arg["epoch"]
    epoch = datetime.strptime(epoch_iso, "%Y-%m-%dT%H:%M:%S.%f")
    K = Sgp4 if kind == "wrapper" else Sgp4Beta
    slots = [None, None]
    last_result = [None, None]  # index into `returned`
    returned = []  # [state object, snapshot taken when it was returned / after the harness mutated it, op index]
    obs = None
    for n_op, op in enumerate(ops):
        name = op[0]
        last = n_op == len(ops) - 1
        sv = None
        try:
            if name == "assign":
                s, x = op[1], op[2]
                if slots[s] is None:
                    slots[s] = K()
                slots[s].orbit = Tle(texts[x]).orbit()
            elif name == "copy":
                s = op[1]
                slots[1 - s] = slots[s].copy()
            elif name == "mut":
                k = last_result[op[1]]
                obj = returned[k][0]
                if op[2] == "frame":
                    obj.frame = "ITRF"
                elif op[2] == "form":
                    obj.form = "spherical"
                else:
                    obj[0] = obj[0] + 1000.0
                returned[k][1] = _snapshot(obj)
            else:
                td = timedelta(microseconds=H_DTS[op[2]])
                date = Date(epoch) + td
                if name == "prop":
                    sv = slots[op[1]].propagate(date)
                elif name == "propt":
                    sv = slots[op[1]].propagate(td)
                elif name == "oprop":
                    sv = Tle(texts[op[1]]).orbit().propagate(date)
                else:  # ocopy
                    sv = Tle(texts[op[1]]).orbit().copy().propagate(date)
        except Exception as e:
            return dict(exc=repr(e), at=n_op)
        if sv is not None:
            alias = [k for k, (o, _, _) in enumerate(returned) if o is sv]
            if last:
                x, frame, form, _ = _snapshot(sv)
                obs = dict(x=x, frame=frame, form=form, date_ok=bool(sv.date == date), alias=[returned[k][2] for k in alias])
            if not alias:
                returned.append([sv, _snapshot(sv), n_op])
            if name in ("prop", "propt"):
                last_result[op[1]] = alias[0] if alias else len(returned) - 1
    # a returned object never changes after being returned (other than by the caller's own mutation)
    obs["changed"] = [dict(returned_by_op=n, was=list(snap), now=list(_snapshot(o))) for o, snap, n in returned if _snapshot(o) != snap]
    return obs


def run_isolated(func, arg):
    """func(arg) in a forked child (pristine copy of this process); JSON result through a pipe."""
    r, w = os.pipe()
    pid = os.fork()
    if pid == 0:
        code = 0
        try:
            os.close(r)
            try:
                data = json.dumps(dict(result=func(arg)))
            except BaseException:
                data = json.dumps(dict(harness_error=traceback.format_exc()))
            with os.fdopen(w, "w") as f:
                f.write(data)
        finally:
            os._exit(code)
    os.close(w)
    with os.fdopen(r) as f:
        data = f.read()
    os.waitpid(pid, 0)
    out = json.loads(data)
    if "harness_error" in out:
        raise RuntimeError("history child failed:\n" + out["harness_error"])
    return out["result"]


_H = {}


def _hist_world(kind):
    """Texts, references and epoch of the element sets of the hist part (parent side: reference only)."""
    if kind not in _H:
        from mc.ref import sgp4_ref, tle_codec as tc

        texts, refs = {}, {}
        for x, idx in H_TLES[kind].items():
            l1, l2 = tle_lines(idx)
            texts[x] = l1 + "\n" + l2
            refs[x] = sgp4_ref.Ref(l1, l2)
            epoch = tc.epoch_datetime(tc.decode(l1, l2))
            if kind == "native" and refs[x].full_near_earth() is not True:
                raise AssertionError("harness: hist element set outside the native model's regime")
        _H[kind] = (texts, refs, epoch)
    return _H[kind]


def _valid(ops):
    slots = [None, None]
    res = [False, False]
    for op in ops:
        if op[0] == "assign":
            slots[op[1]] = op[2]
        elif op[0] in ("prop", "propt"):
            if not slots[op[1]]:
                return False
            res[op[1]] = True
        elif op[0] == "mut":
            if not res[op[1]]:
                return False
        elif op[0] == "copy":
            if slots[op[1]] is None:
                return False
            slots[1 - op[1]] = ""
    return bool(ops) and ops[-1][0] in CHECK_OPS


def check_history(case, t, isolate):
    """One history.  In exploration mode a failing history is first shrunk (greedy removal of operations, each candidate
    executed from the pristine state) so that the recorded case is a minimal reproducer of the same signature."""
    from mc.engine import Tally, MAX_FAILS_PER_SIG

    if not isolate:
        _history_once(case, t, False)
        return
    probe = Tally()
    _history_once(case, probe, True)
    if probe.failures:
        sig = probe.failures[0]["signature"]
        if t.fail_counts.get(sig, 0) < MAX_FAILS_PER_SIG:
            ops = [list(o) for o in case["ops"]]
            changed = True
            while changed:
                changed = False
                for k in range(len(ops) - 1):
                    cand = ops[:k] + ops[k + 1:]
                    if not _valid(cand):
                        continue
                    trial = Tally()
                    _history_once(dict(case, ops=cand), trial, True)
                    if any(f["signature"] == sig for f in trial.failures):
                        ops, changed = cand, True
                        probe.failures = [f for f in trial.failures if f["signature"] == sig][:1]
                        break
    t.merge(probe)


def _history_once(case, t, isolate):
    kind, ops = case["kind"], [list(o) for o in case["ops"]]
    texts, refs, epoch = _hist_world(kind)
    arg = dict(kind=kind, ops=ops, texts=texts, epoch=epoch.strftime("%Y-%m-%dT%H:%M:%S.%f"))
    obs = run_isolated(exec_history, arg) if isolate else exec_history(arg)
    t.trans(len(ops))
    t.states_add(1)
    t.ev((kind, tuple(map(tuple, ops))) if len(ops) >= 2 else None)
    # which element set does the final propagation belong to?
    last = ops[-1]
    if last[0] in ("prop", "propt"):
        x = None
        for op in ops[:-1]:
            if op[0] == "assign" and op[1] == last[1]:
                x = op[2]
            elif op[0] == "copy" and 1 - op[1] == last[1]:
                x = None
        if x is None:
            raise AssertionError(f"harness: history propagates an unbound slot: {ops}")
    else:
        x = last[1]
    seen = set(op[2] if op[0] == "assign" else op[1] for op in ops[:-1] if op[0] in ("assign", "oprop", "ocopy"))
    cls = "after-other-tle" if seen - {x} else "same-tle-only"
    lib = "sgp4" if kind == "wrapper" else "sgp4beta"
    ref = refs[x]
    err, r_ref, v_ref = ref.state(H_DTS[last[2]] / 6e7)
    if err:
        raise AssertionError("harness: reference error in the hist part")
    full_case = dict(case, ops=ops, tles=texts)
    if "exc" in obs:
        t.fail(f"{lib}/history/{cls}/{last[0]}/raises", "every operation of a valid history succeeds", full_case, "state", obs["exc"],
               f"operation #{obs['at']} of {ops}")
        return
    mutated = any(op[0] == "mut" for op in ops)
    hcls = "after-in-place-mutation" if mutated else "no-mutation"
    if obs["alias"]:
        t.fail(f"{lib}/history/result-aliased/{hcls}", "every propagate call returns a new state object (value semantics of results)",
               full_case, "a new object", f"the object returned by operation #{obs['alias'][0]}", f"history {ops}")
    if obs["changed"]:
        t.fail(f"{lib}/history/returned-state-changed/{hcls}", "a state object never changes after it has been returned", full_case,
               [c["was"] for c in obs["changed"]], [c["now"] for c in obs["changed"]], f"history {ops}")
    if obs["frame"] != "TEME" or obs["form"] != "cartesian" or not obs["date_ok"]:
        t.fail(f"{lib}/history/result-labels/{hcls}", "result is cartesian, TEME, at the requested date", full_case, ["TEME", "cartesian", True],
               [obs["frame"], obs["form"], obs["date_ok"]], f"history {ops}")
        t.outcome(("hist", kind, cls, last[0], "labels"))
        return
    bc = _bclass(ALPHA[3][H_TLES[kind][x][3]])
    ok = judge(kind, obs["x"], ref, H_DTS[last[2]] / 6e7, r_ref, v_ref, t, full_case, f"{lib}/history/{cls}/{last[0]}/vs-reference", bc,
               f"history {ops}; final propagation belongs to element set {x}")
    t.outcome(("hist", kind, cls, last[0], ok))
    if len(ops) == 3 and cls == "after-other-tle" and len(t.samples) < 2:
        t.sample(dict(kind=kind, ops=ops))


# ---------------------------------------------------------------------------
# mod part: orbits modified or relabelled between Tle.orbit() and the initialisation of their propagator

MODS = ["none", "bstar", "M", "e", "date"]  # values on the printing grid, so that the library's regenerated TLE is exact
MOD_VALUES = dict(bstar=5e-4, M=100.0, e=0.002, date_shift_us=43200 * 10 ** 6)
CALLS = ["date-utc", "date-scale", "timedelta"]


def mod_cases(kind, x, scales):
    out = []
    for mod in MODS:
        for where in ("inplace", "copy"):
            for scale in scales:
                for call in CALLS:
                    for d in ("d1", "d2"):
                        out.append(dict(part="mod", kind=kind, tle=x, mod=mod, where=where, scale=scale, call=call, dt=d, config=dict(_CFGNOW)))
    return out


def exec_mod(arg):
    """Pristine state: Tle.orbit() -> (copy) -> modify one field / relabel the epoch's scale -> propagate."""
    import math
    import numpy as np
    from datetime import timedelta
    from beyond.io.tle import Tle
    from beyond.propagators.sgp4beta import Sgp4Beta

    try:
        orb = Tle(arg["text"]).orbit()
        if arg["where"] == "copy":
            orb = orb.copy()
        mod = arg["mod"]
        if mod == "bstar":
            orb.bstar = MOD_VALUES["bstar"]
        elif mod == "M":
            orb.M = math.radians(MOD_VALUES["M"])
        elif mod == "e":
            orb[2] = MOD_VALUES["e"]
        elif mod == "date":
            orb.date = orb.date + timedelta(microseconds=MOD_VALUES["date_shift_us"])
        if arg["scale"] != "UTC":
            orb.date = orb.date.change_scale(arg["scale"])  # same instant, other label
        td = timedelta(microseconds=H_DTS[arg["dt"]])
        target = orb.date.change_scale("UTC") + td
        if arg["call"] == "date-utc":
            req = target
        elif arg["call"] == "date-scale":
            req = target.change_scale(arg["scale"])
        else:
            req = td
        if arg["kind"] == "wrapper":
            sv = orb.propagate(req)
        else:
            p = Sgp4Beta()
            p.orbit = orb
            sv = p.propagate(req)
        x, frame, form, _ = _snapshot(sv)
        return dict(x=x, frame=frame, form=form, date_ok=bool(sv.date == target), epoch_utc=str(orb.date.change_scale("UTC")))
    except Exception as e:
        return dict(exc=repr(e) + traceback.format_exc()[-500:])


def check_mod(case, t, isolate):
    from datetime import timedelta
    from mc.ref import sgp4_ref, tle_codec as tc

    kind, x, mod = case["kind"], case["tle"], case["mod"]
    idx = H_TLES[kind][x]
    v = resolve(idx)
    l1, l2 = _encode(v)
    # the element set the modified orbit stands for, written by the codec
    v2 = list(v)
    epoch = tc.epoch_datetime(tc.decode(l1, l2))
    if mod == "bstar":
        v2[3] = MOD_VALUES["bstar"]
    elif mod == "M":
        v2[6] = MOD_VALUES["M"]
    elif mod == "e":
        v2[1] = MOD_VALUES["e"]
    elif mod == "date":
        epoch = epoch + timedelta(microseconds=MOD_VALUES["date_shift_us"])
        v2[7] = tc.fmt_epoch(epoch)
    m1, m2 = _encode(v2)
    ref = sgp4_ref.Ref(m1, m2)
    if kind == "native" and ref.full_near_earth() is not True:
        raise AssertionError("harness: modified element set outside the native model's regime")
    tsince = H_DTS[case["dt"]] / 6e7
    err, r_ref, v_ref = ref.state(tsince)
    if err:
        raise AssertionError("harness: reference error in the mod part")
    arg = dict(case, text=l1 + "\n" + l2)
    obs = run_isolated(exec_mod, arg) if isolate else exec_mod(arg)
    t.trans(3)
    t.states_add(1)
    t.ev(tuple(sorted((k, str(w)) for k, w in case.items() if k != "config")))
    lib = "sgp4" if kind == "wrapper" else "sgp4beta"
    cls = ("modified-" + ("element" if mod in ("M", "e") else mod) if mod != "none" else "unmodified") + "/" + \
        ("epoch-utc" if case["scale"] == "UTC" else "epoch-relabelled")
    full_case = dict(case, source_tle=[l1, l2], expected_tle=[m1, m2])
    if "exc" in obs:
        t.fail(f"{lib}/modified-orbit/{cls}/raises", "an orbit modified after Tle.orbit() propagates", full_case, "state", obs["exc"])
        return
    if obs["frame"] != "TEME" or obs["form"] != "cartesian" or not obs["date_ok"]:
        t.fail(f"{lib}/modified-orbit/{cls}/result-labels", "result is cartesian, TEME, at the requested instant", full_case,
               ["TEME", "cartesian", True], [obs["frame"], obs["form"], obs["date_ok"]])
        return
    bc = _bclass(v2[3])
    ok = judge(kind, obs["x"], ref, tsince, r_ref, v_ref, t, full_case, f"{lib}/modified-orbit/{cls}/vs-reference", bc,
               f"{case}; the orbit stands for {m1} / {m2}")
    t.outcome(("mod", kind, cls, case["call"], ok))
