"""C01 — orbital element forms are lossless, definition-true views of one state.

Exhaustive product over finite alphabets of (central body, e, i, node, perigee, anomaly); for every orbit
the reference model (mc/ref/forms_ref.py + mc/ref/twobody.py) produces the cartesian state and the six
numbers of every form from textbook definitions.  The REAL conversion code is then driven through every
(source form, target form) pair - copy(form=), in-place setter, way back - through every triple
source -> intermediate -> target, and `StateVector.infos.*` is compared with the defining relations.
"""

import itertools
import math

import numpy as np

PROPERTY = "C01"
DESIGN_REF = "DESIGN.md §4 C01"
CLAIM = dict(
    text="Every one of the 10x10 (9x9 for hyperbolas) form conversions of the real library is executed on every orbit "
    "of a full product of alphabets that has one element per visible branch of forms.py (M2E start-value regions "
    "for ellipses and hyperbolas, e<1.6 / e<3.6 / else, retrograde and near-equatorial inclinations, unreduced "
    "anomalies, four central bodies). Each result is compared with an independent textbook model both element-wise "
    "and as position/velocity, for copy(form=), for the in-place setter, for the way back and for every two-leg walk "
    "S->X->T; the Infos quantities are checked against their defining relations computed from r and v only.",
    note="Trusts the reference model (two independent routes cross-checked at start-up: angle formulas vs. vector "
    "definitions, inverse pairs) and that behaviour between alphabet points is like at the points (no hidden branch "
    "in forms.py other than those the alphabets straddle).",
    technique="exhaustive product over finite input alphabets on the real code vs. independent reference model; explicit-state "
    "exploration of all operation histories up to depth 3/4 for the derived quantities",
)
RULE_HISTORY = (
    " History part: states = histories (sequences over {read infos, write by index, write by name, in-place form change, "
    "in-place frame change, copy(), copy(form=)}) up to depth 3 (quick) / 4 (thorough) from every source form of 3/4 orbits, "
    "each executed on freshly built objects; after the last operation the Infos of every live object (original and copies) "
    "are compared with the defining relations evaluated on that object's current numbers. Distinct by construction "
    "(different operation sequence or start); non-trivial = at least one operation."
)
RULE = (
    "cases = (orbit, source form S, target form T) for all orbits of the alphabet product and all ordered pairs, plus "
    "(orbit, S, X, T) walks and (orbit, S, infos attribute); every orbit differs from every other in at least one "
    "alphabet coordinate, hence distinct by construction. non-trivial = S != T resp. X != S (at least one edge function "
    "runs); to bound memory the non-trivial key is (part, orbit, S): the 9-10 targets / 17 attributes of one source "
    "form are counted under one key, every one of them is an evaluation."
)
RULE = RULE + RULE_HISTORY + (
    " Frame part: every Earth-centred orbit of the sub-product x every source form: copy(frame=), copy(frame=, form=T) for all T, "
    "in-place frame assignment and the way back, to a LINKED frame whose centre carries another body (mu = 1.3 x Earth, constant "
    "offset): numbers vs textbook definitions with the NEW mu, infos likewise. Name part: every documented form name and alias in "
    "lower / UPPER / Title case through copy(form=), the setter and the constructor. Argument-type part: 3 integer-valued cartesian "
    "states x 12 numeric container / scalar types x {StateVector, Orbit}: bit-identical to the construction from floats, "
    "identical conversions to 4 forms."
)
BOUNDS = {
    "quick": "4 bodies x 13 e x 5 i x 2 node x 2 perigee x 5 (ellipse) / 6 (hyperbola) anomalies: all 100/81 pairs, "
    "setter, back conversion, infos in every source form; all 1000/729 walks on the sub-product with 2 bodies x 3 i; "
    "hyperbolic anomalies 0.5, -4, 20, +-1000, +-5000; Infos histories: 7 operations, depth <= 3, 3 orbits x every source form; "
    "frame changes to another central body: 405 Earth orbits (13 e x 5 i x 5/7 anomalies) x every form; 14 form names x 3 cases x 3 routes on 13 orbits",
    "thorough": "full alphabets 4 bodies x 13 e x 5 i x 4 node x 4 perigee x 9 (ellipse) / 10 (hyperbola) anomalies "
    "(12 hyperbolic anomalies incl. +-1000, +-5000) for pairs/setter/back/infos and for all walks; Infos histories: depth <= 4, 4 orbits; frame changes to another "
    "central body on all 11 280 Earth orbits of the full product, form names on the M = 0.5, i = 0.9 ones",
}
ASSUMPTIONS = [
    "element definitions are those documented in beyond/orbits/forms.py (equatorial spherical form, l = true longitude, "
    "ix = tan(i/2) cos(node)); ranges of angles are not part of the property (compared modulo 2 pi)",
    "for hyperbolas the mean anomaly / hyperbolic anomaly / mean argument of latitude are real numbers, not angles; "
    "alpha = w + M is formed with w in (-pi, pi], the branch the library's own reader (mean_circular -> mean) uses",
    "mu is taken from frame.center.body.mu (data), never recomputed",
]
NOT_COVERED = (
    "e within 1e-4 of 0 or 1e-3 of 1, |i| < 0.01 rad from equatorial (excluded by the property's quantifier); "
    "hyperbolic mean anomalies beyond |M| = 1000, i.e. |H| > 8 (the accuracy of the library's arctanh formulation of "
    "true -> hyperbolic anomaly decays like exp(2|H|): 5e-11 of the 1e-9 tolerance is used at |M| = 1000; C05 sees the "
    "same loss as a failing inverse); orbits given in the TLE form for a < 0 (form undefined)"
)

# ---------------------------------------------------------------------------
# alphabets

BODIES = {
    # name: (frame name, perigee radius [m])
    "earth": ("EME2000", 7.0e6),
    "moon": ("VfMoonI", 2.0e6),
    "sun": ("VfSunI", 2.0e10),
    "test": ("VfTestI", 10.0),  # mu = 1e3 m3/s2
}
E_ELL = [1e-4, 0.01, 0.3, 0.7, 0.99]
E_HYP = [1.001, 1.3, 1.59, 1.61, 2.5, 3.59, 3.61, 20.0]
INC = [0.01, 0.9, math.pi / 2, 2.2, math.pi - 0.01]
NODE = [0.0, 1.0, 3.5, 6.0]
PERI = [0.0, 0.7, math.pi, 5.5]
M_ELL = [-3.0, -0.5, 0.0, 0.5, 3.0, 3.3, 6.0, 7.5, -7.5]
M_HYP = [0.5, -0.5, 4.0, -4.0, 20.0, -20.0, 200.0, -200.0, 1000.0, -1000.0, 5000.0, -5000.0]

QUICK = dict(node=[1.0, 6.0], peri=[0.7, 5.5], m_ell=[-3.0, 0.0, 0.5, 3.3, 7.5], m_hyp=[0.5, -4.0, 20.0, 1000.0, -1000.0, 5000.0, -5000.0])
# (hyperbolic |M| = 1000 and 5000 of BOTH signs: the start value of M2E must be brought back from ~|M| - beyond the
# overflow of sinh at 710 - on the outbound and on the inbound leg, for e in each regime e<1.6, e<3.6, e>=3.6;
# e = 3.61: M/(e-1) = -1916 at M = -5000)

# Tolerances (relative, in units of |r| and |v| of the reference state) = conditioning x round-off:
#  * near-parabolic conditioning cond = 1 + 1/|1-e| (DESIGN.md): a = -mu/(2K) loses 2a/r = 2/|1-e| digits at
#    perigee and every anomaly -> position map has slope <= 1/|1-e|;
#  * near-circular: the quantifier's lower bound e >= 1e-4 admits an absolute error of eps/e = 1e-12 on e (the energy /
#    angular-momentum formulation cancels 1 - (1 - e^2)), i.e. 1e-12 |r|; a walk has up to 12 edges -> 1e-10
#    leaves a factor 10-50 on the unchanged tree (observed maximum/tolerance 0.02-0.05);
#  * hyperbolas: a state given by its true anomaly has conditioning dr/r = e sin(nu)/(1 + e cos nu) d(nu)
#    ~ |M|/(e^2-1) d(nu) near the asymptote (|M| <= 1000 here) -> one more decade: 1e-9 (DESIGN.md value).
TOL_CART = {"ell": 1e-10, "hyp": 1e-9}
TOL_ELEM = {"ell": 1e-10, "hyp": 1e-9}  # element-wise, relative to the natural scale of the element x cond x element conditioning
TOL_INFO = {"ell": 1e-10, "hyp": 1e-9}
# quantities that depend on the energy / radius only (no e, no anomaly): conditioning cond x a few ulp
TOL_INFO_A = 1e-11
INFO_A_ONLY = ("r", "v", "energy", "n", "vinf", "dinf")

_W = {}

# position / velocity of the centre of the linked frame VfHeavyI relative to the Earth's centre (EME2000 axes)
LINK_OFFSET = [2.0e5, -1.0e5, 5.0e4, 3.0, -2.0, 1.0]
MU_FORMS = ("keplerian", "keplerian_eccentric", "keplerian_mean", "keplerian_circular", "keplerian_mean_circular", "equinoctial", "tle")
# every documented name of a form (beyond/orbits/forms.py and the user documentation) -> the form it denotes
FORM_NAMES = {
    "cartesian": "cartesian", "spherical": "spherical", "cylindrical": "cylindrical", "keplerian": "keplerian",
    "keplerian_eccentric": "keplerian_eccentric", "eccentric": "keplerian_eccentric",
    "keplerian_mean": "keplerian_mean", "mean": "keplerian_mean",
    "keplerian_circular": "keplerian_circular", "circular": "keplerian_circular",
    "keplerian_mean_circular": "keplerian_mean_circular", "mean_circular": "keplerian_mean_circular",
    "equinoctial": "equinoctial", "tle": "tle",
}


def _forms():
    from mc.ref import forms_ref

    return forms_ref


def orbit_list(tier, part):
    """Deterministic list of orbit tuples (body, e, i, Om, w, M)."""
    if tier == "quick":
        node, peri, m_ell, m_hyp = QUICK["node"], QUICK["peri"], QUICK["m_ell"], QUICK["m_hyp"]
    else:
        node, peri, m_ell, m_hyp = NODE, PERI, M_ELL, M_HYP
    bodies = list(BODIES)
    inc = INC
    if tier == "quick" and part == "walk":
        bodies = ["earth", "test"]
        inc = [0.01, 2.2, math.pi - 0.01]
    out = []
    for body in bodies:
        for e in E_ELL + E_HYP:
            for i, Om, w in itertools.product(inc, node, peri):
                if e > 1 and w == math.pi:
                    # w = pi sits on the branch cut of arctan2 on which the hyperbolic alpha = w + M depends
                    # (round-off decides between +pi and -pi): 3.0 instead, for hyperbolas only
                    w = 3.0
                for M in m_ell if e < 1 else m_hyp:
                    out.append((body, e, i, Om, w, M))
    return out


def units(tier, seed):
    cfg = {"frames": "c01"}
    u = []
    for part, nunits in (("pair", 48), ("walk", 80)) if tier == "quick" else (("pair", 96), ("walk", 224)):
        orbits = orbit_list(tier, part)
        # hyperbolic orbits with large |M| are slower (Newton from a far start value): deal round-robin
        for k in range(nunits):
            chunk = orbits[k::nunits]
            if chunk:
                u.append((cfg, dict(part=part, orbits=chunk)))
    # Infos under operation histories: one unit per (orbit, source form, first operation)
    for orb in H_ORBITS[tier]:
        for S in _forms().FORMS:
            if orb[1] > 1 and S in ("tle", "keplerian_mean_circular"):
                continue
            for first in H_OPS:
                u.append((cfg, dict(part="hist", orbit=list(orb), S=S, first=first, depth=H_DEPTH[tier])))
    # frame changes to a frame of another central body + form names: Earth-centred orbits of the pair part
    forbs = [o for o in orbit_list(tier, "pair") if o[0] == "earth" and (tier != "quick" or (o[3] == 1.0 and o[4] == 0.7))]
    nfr = 16 if tier == "quick" else 48
    for k in range(nfr):
        chunk = forbs[k::nfr]
        if chunk:
            u.append((cfg, dict(part="frame", orbits=chunk)))
    u.append((cfg, dict(part="argtypes")))
    return u


# ---------------------------------------------------------------------------
# process-global configuration


def setup(config):
    from beyond.config import config as bc
    from beyond import constants
    from beyond.frames import frames, center, orient

    bc.update({"eop": {"missing_policy": "pass"}})
    if "VfMoonI" not in frames.dynamic:
        frames.Frame("VfMoonI", orient.EME2000, center.Center("VfMoonC", body=constants.Moon))
        frames.Frame("VfSunI", orient.EME2000, center.Center("VfSunC", body=constants.Sun))
        test = constants.Body("VfTest", mass=1e3 / constants.G, equatorial_radius=1.0)
        frames.Frame("VfTestI", orient.EME2000, center.Center("VfTestC", body=test))
        # a frame LINKED to the Earth-centred ones (so that frame changes work) whose centre carries another body:
        # constant offset from the Earth's centre, same orientation as EME2000, mu = 1.3 x Earth
        heavy = constants.Body("VfHeavy", mass=1.3 * constants.Earth.mass, equatorial_radius=7.0e6)
        c = center.Center("VfHeavyC", body=heavy)
        c.add_link(center.Earth, orient.EME2000, np.array(LINK_OFFSET))
        frames.Frame("VfHeavyI", orient.EME2000, c)
    from beyond.dates import Date

    _W["date"] = Date(2020, 1, 1)
    _W["ref"] = {}


def _mu(body):
    from beyond.frames.frames import get_frame

    return float(get_frame(BODIES[body][0]).center.body.mu)


def ref_orbit(orb):
    """Reference numbers of one orbit (cached)."""
    key = tuple(orb)
    r = _W["ref"].get(key)
    if r is None:
        fr = _forms()
        body, e, i, Om, w, M = orb
        mu = _mu(body)
        a = BODIES[body][1] / (1 - e)
        nums, rv = fr.orbit_numbers(a, e, i, Om, w, M, mu)
        # keplerian_mean_circular stores alpha = (w + M) mod 2pi: on a hyperbola M is not an angle, so the form
        # cannot represent the orbit (not "defined for them" in the property's words) -> excluded like TLE
        forms = [f for f in fr.FORMS if f in nums and not (e > 1 and f == "keplerian_mean_circular")]
        expected = {f: fr.from_cart(f, rv, mu) for f in forms}
        r = dict(mu=mu, nums=nums, rv=np.asarray(rv, dtype=float), forms=forms, expected=expected, e=e, i=i,
                 rn=float(np.linalg.norm(rv[:3])), vn=float(np.linalg.norm(rv[3:])), cond=1 + 1 / abs(1 - e),
                 conic="ell" if e < 1 else "hyp", frame=BODIES[body][0])
        if len(_W["ref"]) > 64:
            _W["ref"].clear()
        _W["ref"][key] = r
    return r


def m2e_branch(e, M):
    """Label of the start-value region of forms.M2E the mean anomaly falls in (input class)."""
    if e < 1:
        return "ell:M-e" if (-math.pi < M < 0 or M > math.pi) else "ell:M+e"
    if e < 1.6:
        return "hyp<1.6:M-e" if (-math.pi < M < 0 or M > math.pi) else "hyp<1.6:M+e"
    if e < 3.6 and abs(M) > math.pi:
        return "hyp<3.6:M-+e"
    return "hyp:M/(e-1)"


# ---------------------------------------------------------------------------
# comparison helpers


def cart_err(R, form, six):
    """Relative position / velocity error of library numbers `six` (form) w.r.t. the reference state."""
    fr = _forms()
    rv = fr.to_cart(form, six, R["mu"])
    return float(np.linalg.norm(rv[:3] - R["rv"][:3])) / R["rn"], float(np.linalg.norm(rv[3:] - R["rv"][3:])) / R["vn"]


def elem_scales(R, form, ref6):
    """(kind, scale, conditioning) per element; kind 'ang' = modulo 2 pi, 'lin' = plain number."""
    e, inc, conic = R["e"], R["i"], R["conic"]
    ce, ci = max(1.0, 1 / e), 1 / math.sin(inc)
    rn, vn = R["rn"], R["vn"]
    a = abs(ref6[0]) if form not in ("cartesian", "spherical", "cylindrical", "tle") else None
    if form == "cartesian":
        return [("lin", rn, 1)] * 3 + [("lin", vn, 1)] * 3
    if form == "spherical":
        rho = rn * math.cos(ref6[2])
        return [("lin", rn, 1), ("ang", 1, rn / rho), ("lin", 1, 1), ("lin", vn, 1), ("lin", vn / rho, rn / rho), ("lin", vn / rn, rn / rho)]
    if form == "cylindrical":
        rho = ref6[0]
        return [("lin", rn, 1), ("ang", 1, rn / rho), ("lin", rn, 1), ("lin", vn, 1), ("lin", vn / rho, rn / rho), ("lin", vn, 1)]
    anom = "ang" if conic == "ell" else "lin"
    if form == "keplerian":
        return [("lin", a, 1), ("lin", max(e, 1), 1), ("lin", 1, ci), ("ang", 1, ci), ("ang", 1, ce * ci), ("ang", 1, ce)]
    if form in ("keplerian_eccentric", "keplerian_mean"):
        return [("lin", a, 1), ("lin", max(e, 1), 1), ("lin", 1, ci), ("ang", 1, ci), ("ang", 1, ce * ci), (anom, max(1.0, abs(ref6[5])), ce)]
    if form == "keplerian_circular":
        return [("lin", a, 1), ("lin", max(e, 1), ci), ("lin", max(e, 1), ci), ("lin", 1, ci), ("ang", 1, ci), ("ang", 1, ci)]
    if form == "keplerian_mean_circular":
        return [("lin", a, 1), ("lin", max(e, 1), ci), ("lin", max(e, 1), ci), ("lin", 1, ci), ("ang", 1, ci), (anom, max(1.0, abs(ref6[5])), ci)]
    if form == "equinoctial":
        t2 = 1 + math.tan(inc / 2) ** 2
        return [("lin", a, 1), ("lin", max(e, 1), 1), ("lin", max(e, 1), 1), ("lin", 1, t2), ("lin", 1, t2), ("ang", 1, 1)]
    if form == "tle":
        return [("lin", 1, ci), ("ang", 1, ci), ("lin", max(e, 1), 1), ("ang", 1, ce * ci), ("ang", 1, ce), ("lin", ref6[5], 1)]
    raise ValueError(form)


def elem_err(R, form, six):
    """max over elements of |library - reference| / (scale x conditioning); index of the worst element."""
    fr = _forms()
    ref6 = R["expected"][form]
    worst, wj = 0.0, -1
    for j, ((kind, scale, cnd), x, y) in enumerate(zip(elem_scales(R, form, ref6), six, ref6)):
        d = abs(fr.wrap(x - y)) if kind == "ang" else abs(x - y)
        q = d / (scale * cnd)
        if not (q <= worst):
            worst, wj = q, j
    return worst, wj


def _margin(t, name, value, tol, case):
    """Tolerance-adequacy statistics over the PASSING cases (a failing case is reported by t.fail and would
    otherwise hide how close the correct cases come to the tolerance)."""
    ok = value <= tol
    if ok:
        t.margin(name, value, tol, case)
    return ok


def _finite(x):
    return bool(np.all(np.isfinite(x)))


def _sv(R, form, six):
    from beyond.orbits import StateVector

    return StateVector(six, _W["date"], form, R["frame"])


def localise(R, start, target):
    """Walk the form graph edge by edge with the real code and name the first edge whose output leaves the
    reference state (labelling of an already detected failure only)."""
    from beyond.orbits.forms import get_form

    cur = start.copy()
    try:
        steps = list(cur.form.steps(get_form(target).name))
    except Exception as e:  # pragma: no cover
        return "walk/no-path"
    for a, b in steps:
        try:
            nxt = cur.copy(form=b.name)
        except Exception as ex:
            return f"edge/{a.name}->{b.name}/{R['conic']}/raises-{type(ex).__name__}"
        arr = np.array(nxt, dtype=float)
        if not _finite(arr):
            # input class: hyperbolic mean anomalies beyond 500 (start value of the Newton iteration ~ |M|)
            cls = "/large-mean-anomaly" if R["conic"] == "hyp" and abs(R["nums"]["keplerian_mean"][5]) > 500 else ""
            return f"edge/{a.name}->{b.name}/{R['conic']}/non-finite{cls}"
        er, ev = cart_err(R, b.name, arr)
        if not (max(er, ev) <= TOL_CART[R['conic']] * R["cond"]):
            return f"edge/{a.name}->{b.name}/{R['conic']}/wrong-state"
        ee, j = elem_err(R, b.name, arr)
        if not (ee <= TOL_ELEM[R['conic']] * R["cond"]):
            return f"edge/{a.name}->{b.name}/{R['conic']}/element-{j}"
        cur = nxt
    return None


def convert_checked(R, src, T, t, clause, case, what):
    """src.copy(form=T) on the real code, checked against the reference. Returns the new StateVector or None."""
    try:
        out = src.copy(form=T)
    except Exception as ex:
        sig = localise(R, src, T) or f"walk/{src.form.name}->{T}/{R['conic']}/raises"
        t.fail(sig, clause, case, "a state in form " + T, repr(ex), f"{what}: {src.form.name}->{T} raised {ex!r}")
        return None
    t.trans()
    arr = np.array(out, dtype=float)
    if out.form.name != T:
        t.fail(f"copy-form/label/{R['conic']}", clause, case, T, out.form.name, f"{what}: result labelled {out.form.name}")
        return None
    if not _finite(arr):
        sig = localise(R, src, T) or f"walk/{src.form.name}->{T}/{R['conic']}/non-finite"
        t.fail(sig, clause, case, R["expected"][T], arr, f"{what}: {src.form.name}->{T} gives non-finite numbers")
        return None
    er, ev = cart_err(R, T, arr)
    tol = TOL_CART[R['conic']] * R["cond"]
    ok = _margin(t, f"{what}: position+velocity vs reference [rel/cond]", max(er, ev), tol, case)
    ee, j = elem_err(R, T, arr)
    ok2 = _margin(t, f"{what}: elements vs textbook definition [rel/cond]", ee, TOL_ELEM[R['conic']] * R["cond"], case)
    if not (ok and ok2):
        sig = localise(R, src, T) or f"walk/{src.form.name}->{T}/{R['conic']}/wrong-state"
        t.fail(sig, clause, case, R["expected"][T], arr,
               f"{what}: {src.form.name}->{T} |dr|/r={er:.3e} |dv|/v={ev:.3e} (tol {tol:.1e}); worst element #{j} off by "
               f"{ee:.3e} x scale (tol {TOL_ELEM[R['conic']] * R['cond']:.1e})")
        return None
    return out


# ---------------------------------------------------------------------------
# the checks (each usable alone for replay)


def check_pair(orb, S, T, t):
    R = ref_orbit(orb)
    case = dict(kind="pair", orbit=list(orb), S=S, T=T, config={"frames": "c01"})
    src = _sv(R, S, R["nums"][S])
    t.states_add(1)
    x = convert_checked(R, src, T, t, "every form's six numbers equal their textbook definitions / conversion keeps position and velocity", case, "S->T")
    t.ev(("pair",) + tuple(orb) + (S,) if S != T else None)
    t.outcome((S, T, R["conic"], m2e_branch(R["e"], orb[5])))
    if x is None:
        return None
    # in-place setter
    inp = _sv(R, S, R["nums"][S])
    try:
        inp.form = T
        t.trans()
        arr = np.array(inp, dtype=float)
        if inp.form.name != T or not np.array_equal(arr, np.array(x, dtype=float)):
            t.fail(f"form-setter/differs-from-copy/{R['conic']}", "in-place form change equals copy(form=)", case,
                   np.array(x, dtype=float), arr, f"sv.form = {T} from {S}")
    except Exception as ex:
        t.fail(f"form-setter/raises/{R['conic']}", "in-place form change equals copy(form=)", case, None, repr(ex), f"sv.form = {T} from {S}")
    # source object untouched by copy()
    if not np.array_equal(np.array(src, dtype=float), np.array(R["nums"][S], dtype=float)) or src.form.name != S:
        t.fail(f"copy-form/mutates-source/{R['conic']}", "copy(form=) leaves the source untouched", case, R["nums"][S], np.array(src, dtype=float))
    # way back
    convert_checked(R, x, S, t, "converting to another form and back returns the same position and velocity", case, "S->T->S")
    t.ev()
    return x


INFO_ATTRS = ["r", "v", "energy", "n", "rp", "pericenter", "vp", "zp", "fpa", "cos_fpa", "sin_fpa", "type"]
INFO_ELL = ["period", "ra", "apocenter", "va", "za"]
INFO_HYP = ["vinf", "dinf"]


def check_infos(orb, S, t):
    fr = _forms()
    R = ref_orbit(orb)
    case = dict(kind="infos", orbit=list(orb), S=S, config={"frames": "c01"})
    ref = fr.infos_ref(R["rv"], R["mu"])
    cond = R["cond"]
    sv = _sv(R, S, R["nums"][S])
    infos = sv.infos
    # Infos works on its own keplerian / spherical copies: when those conversions are already wrong (reported
    # by the pair check under the edge's signature) the derived quantities are not examined
    for f in ("keplerian", "spherical"):
        try:
            arr = np.array(infos.kep if f == "keplerian" else infos.sphe, dtype=float)
            bad = not _finite(arr) or not max(cart_err(R, f, arr)) <= TOL_CART[R["conic"]] * cond
        except Exception:
            bad = True
        t.trans()
        if bad:
            t.note("infos not examined: underlying form conversion already reported by the pair check", 1)
            return
    from beyond.frames.frames import get_frame

    body_r = float(get_frame(R["frame"]).center.body.r)
    _compare_infos(t, infos, ref, R["conic"], cond, body_r, case,
                   lambda name, kind: f"Infos.{name}/{kind}" + (f"/{R['conic']}" if kind != "value" else ""),
                   ("infos",) + tuple(orb) + (S,), f"M = {orb[5]}", "infos.")
    t.outcome(("infos", S, R["conic"]))


def _compare_infos(t, infos, ref, conic, cond, body_r, case, sig, evkey, label, mprefix):
    """Every derived quantity of `infos` against its defining relation evaluated on r, v (`ref` = infos_ref(rv, mu)).
    sig(name, kind) names the signature (kind in raises / type / value)."""
    rn, vn = ref["r"], ref["v"]
    # expected value, scale of the comparison
    exp = {
        "r": (rn, rn), "v": (vn, vn), "energy": (ref["energy"], ref["v"] ** 2 / 2), "n": (ref["n"], ref["n"]),
        "rp": (ref["rp"], ref["rp"]), "pericenter": (ref["rp"], ref["rp"]), "vp": (ref["vp"], ref["vp"]),
        "zp": (ref["rp"] - body_r, ref["rp"]), "fpa": (ref["fpa"], 1.0), "cos_fpa": (ref["cos_fpa"], 1.0),
        "sin_fpa": (ref["sin_fpa"], 1.0),
    }
    if conic == "ell":
        exp.update({"ra": (ref["ra"], ref["ra"]), "apocenter": (ref["ra"], ref["ra"]), "va": (ref["va"], ref["va"]),
                    "za": (ref["ra"] - body_r, ref["ra"]), "period": (ref["period"], ref["period"])})
        names = INFO_ATTRS + INFO_ELL
    else:
        exp.update({"vinf": (ref["vinf"], ref["vinf"]), "dinf": (ref["dinf"], ref["dinf"])})
        names = INFO_ATTRS + INFO_HYP
    nbad = 0
    for name in names:
        clause = "derived orbit quantities obey their defining relations"
        try:
            val = getattr(infos, name)
        except Exception as ex:
            t.fail(sig(name, "raises"), clause, case, exp.get(name, [None])[0], repr(ex), f"infos.{name} raised {ex!r} ({label})")
            nbad += 1
            continue
        t.trans()
        t.ev(evkey)
        if name == "type":
            want = "elliptic" if conic == "ell" else "hyperbolic"
            if val != want:
                t.fail(sig(name, "type"), clause, case, want, val, f"infos.type = {val!r} ({label})")
                nbad += 1
            continue
        if name == "period":
            # timedelta: resolution 1 microsecond
            got = val.total_seconds()
            tol = TOL_INFO_A * cond * 1.5 * exp[name][1] + 1e-6
            d = abs(got - exp[name][0])
            if not _margin(t, mprefix + "period [s, tol = 1.5e-11 cond P + 1 us]", d, tol, case):
                t.fail(sig(name, "value") if mprefix != "infos." else f"Infos.period/value/{conic}", clause, case, exp[name][0], got,
                       f"infos.period = {got!r} s, defining relation gives {exp[name][0]!r} s (off by {d:.3e} s; {label})")
                nbad += 1
            continue
        got = float(val)
        want, scale = exp[name]
        if not math.isfinite(got):
            t.fail(sig(name, "value"), clause, case, want, repr(got), f"infos.{name} = {got!r} (non-finite; defining relation gives {want:.12g}; {label})")
            nbad += 1
            continue
        d = abs(got - want) / scale
        tol = (TOL_INFO_A if name in INFO_A_ONLY else TOL_INFO[conic]) * cond
        if not _margin(t, f"{mprefix}{name} [rel/cond]", d, tol, case):
            t.fail(sig(name, "value"), clause, case, want, got, f"infos.{name} = {got!r}, defining relation gives {want!r} (rel {d:.3e}, tol {tol:.1e}; {label})")
            nbad += 1
    return nbad


def check_walks(orb, S, X, t, first=None):
    """All S -> X -> T for one (orbit, S, X)."""
    R = ref_orbit(orb)
    case = dict(kind="walk", orbit=list(orb), S=S, X=X, config={"frames": "c01"})
    if first is None:
        src = _sv(R, S, R["nums"][S])
        try:
            first = src.copy(form=X)
        except Exception:
            return  # reported by the pair check
        t.trans()
        arr = np.array(first, dtype=float)
        if not _finite(arr):
            return
        er, ev = cart_err(R, X, arr)
        if not max(er, ev) <= TOL_CART[R['conic']] * R["cond"]:
            return  # first leg already wrong: reported by the pair check
    for T in R["forms"]:
        c = dict(case, T=T)
        convert_checked(R, first, T, t, "same position and velocity whichever intermediate forms are traversed", c, "S->X->T")
        t.states_add(1)
    t.ev(("walk",) + tuple(orb) + (S,) if X != S else None, n=len(R["forms"]))



# ---------------------------------------------------------------------------
# Infos under operation histories (explicit-state part)
#
# A case is a whole short history executed on freshly built objects: nothing is shared between cases.
# Objects: the original state vector and the copies made of it.  Operations act on the current target
# (the original, or the latest copy once one was made):
#   read      read derived quantities through target.infos (populates whatever the library caches)
#   idx       write the last three components by index:  target[3:] = 1.01 x target[3:]
#   name      write the first component by its name:     target.<first parameter> = 0.97 x value
#   form      in-place form change   target.form = <another form>
#   frame     in-place frame change  target.frame = EME2000 <-> G50 (constant rotation, same centre)
#   copy      target = target.copy()
#   copyform  target = target.copy(form=<another form>)
# After the last operation the Infos of EVERY live object are compared with the defining relations evaluated on
# the cartesian state the reference model derives from that object's CURRENT numbers, form and (same-centre) frame.

H_OPS = ["read", "idx", "name", "form", "frame", "copy", "copyform"]
H_FRAMES = {"EME2000": "G50", "G50": "EME2000"}
H_ORBITS = {
    "quick": [("earth", 0.3, 0.9, 1.0, 0.7, 0.5), ("earth", 1.61, 2.2, 6.0, 5.5, -4.0), ("earth", 1e-4, 2.2, 3.5, 5.5, 3.3)],
    "thorough": [("earth", 0.3, 0.9, 1.0, 0.7, 0.5), ("earth", 1.61, 2.2, 6.0, 5.5, -4.0), ("earth", 1e-4, 2.2, 3.5, 5.5, 3.3),
                 ("earth", 0.7, 0.01, 6.0, 0.7, -3.0)],
}
H_DEPTH = {"quick": 3, "thorough": 4}


def histories(depth):
    out = [()]
    for d in range(1, depth + 1):
        out.extend(itertools.product(H_OPS, repeat=d))
    return out


def _next_form(forms, cur):
    return forms[(forms.index(cur) + 3) % len(forms)]


def check_history(orb, S, ops, t):
    from mc.ref import twobody as tb
    from beyond.frames.frames import get_frame

    fr = _forms()
    R = ref_orbit(orb)
    forms = R["forms"]
    case = dict(kind="history", orbit=list(orb), S=S, ops=list(ops), config={"frames": "c01"})
    sv = _sv(R, S, R["nums"][S])
    objs = [dict(role="original", obj=sv, mut="none", read_before=False)]
    cur = objs[0]
    any_read = False
    for k, op in enumerate(ops):
        o = cur["obj"]
        try:
            if op == "read":
                inf = o.infos
                _ = (inf.v, inf.r, inf.rp, inf.fpa)
                any_read = True
            elif op == "idx":
                o[3:] = np.array(o, dtype=float)[3:] * 1.01
                cur["mut"], cur["read_before"] = "write", any_read
            elif op == "name":
                setattr(o, o.form.param_names[0], float(np.array(o, dtype=float)[0]) * 0.97)
                cur["mut"], cur["read_before"] = "write", any_read
            elif op == "form":
                o.form = _next_form(forms, o.form.name)
                if cur["mut"] != "write":
                    cur["mut"], cur["read_before"] = "form", any_read
            elif op == "frame":
                o.frame = H_FRAMES[o.frame.name]
                if cur["mut"] != "write":
                    cur["mut"], cur["read_before"] = "frame", any_read
            elif op in ("copy", "copyform"):
                c = o.copy() if op == "copy" else o.copy(form=_next_form(forms, o.form.name))
                cur = dict(role="copy", obj=c, mut="copied", read_before=any_read)
                objs.append(cur)
            else:
                raise ValueError(op)
        except Exception as ex:
            if op not in H_OPS:
                raise
            t.fail(f"history/{op}-raises/{R['conic']}", "operations on a state vector succeed", case, None, repr(ex), f"step {k} ({op}) of {list(ops)} from {S}: {ex!r}")
            return
        t.trans()
    t.states_add(1)
    t.ev(("hist",) + tuple(orb) + (S,) if ops else None)
    body_r = float(get_frame(R["frame"]).center.body.r)
    for j, d in enumerate(objs):
        o = d["obj"]
        arr = np.array(o, dtype=float)
        form = o.form.name
        if o.frame.name not in H_FRAMES or not _finite(arr):
            t.fail(f"history/state-lost/{R['conic']}", "operations keep a valid state", case, None, [o.frame.name, arr])
            continue
        rv = fr.to_cart(form, arr, R["mu"])
        k = tb.cart_to_kep(rv, R["mu"])
        e, inc = k["e"], k["i"]
        if not ((1e-4 * (1 - 1e-9) <= e <= 0.99 or 1.001 <= e <= 20) and 0.01 * (1 - 1e-9) <= inc <= math.pi - 0.01 * (1 - 1e-9)) or (e < 1) != (R["e"] < 1):
            t.exclude("history leaves the property's domain of e / i (or changes the type of conic)")
            continue
        conic = "ell" if e < 1 else "hyp"
        cond = 1 + 1 / abs(1 - e)
        # the state itself must still convert correctly (else: a form-conversion failure, reported by the pair part)
        try:
            chk = np.array(o.copy(form="keplerian"), dtype=float)
            rv2 = fr.to_cart("keplerian", chk, R["mu"])
            okconv = _finite(chk) and max(np.linalg.norm(rv2[:3] - rv[:3]) / np.linalg.norm(rv[:3]), np.linalg.norm(rv2[3:] - rv[3:]) / np.linalg.norm(rv[3:])) <= TOL_CART[conic] * cond
        except Exception:
            okconv = False
        if not okconv:
            t.note("history: infos not examined, the state's own conversion fails (pair part)", 1)
            continue
        ref = fr.infos_ref(rv, R["mu"])
        cls = f"{d['role']}/after-{d['mut']}/{'infos-read-before' if d['read_before'] else 'infos-not-read-before'}"
        c2 = dict(case, object=j)
        _compare_infos(t, o.infos, ref, conic, cond, body_r, c2, lambda name, kind: f"Infos/history/{cls}",
                       None, f"object #{j} ({d['role']}) after {list(ops)} from {S}; current form {form}, frame {o.frame.name}",
                       "history infos.")
    t.outcome(("hist", len(ops), R["conic"], tuple(sorted(set(ops)))))


# ---------------------------------------------------------------------------
# frame changes between frames whose centres carry DIFFERENT bodies (the mu-dependent forms must be re-expressed
# with the new mu), and the names under which a form can be requested


def _R_of_state(rv, mu, frame):
    """Reference description (same layout as ref_orbit) of an arbitrary cartesian state; None outside the domain."""
    from mc.ref import twobody as tb

    fr = _forms()
    k = tb.cart_to_kep(rv, mu)
    e, inc = float(k["e"]), float(k["i"])
    if not ((1e-4 * (1 - 1e-9) <= e <= 0.99 or 1.001 <= e <= 20) and 0.01 * (1 - 1e-9) <= inc <= math.pi - 0.01 * (1 - 1e-9)):
        return None
    forms = [f for f in fr.FORMS if not (e > 1 and f in ("tle", "keplerian_mean_circular"))]
    return dict(mu=mu, rv=np.asarray(rv, dtype=float), forms=forms, expected={f: fr.from_cart(f, rv, mu) for f in forms}, e=e, i=inc,
                rn=float(np.linalg.norm(rv[:3])), vn=float(np.linalg.norm(rv[3:])), cond=1 + 1 / abs(1 - e),
                conic="ell" if e < 1 else "hyp", frame=frame)


def _state_ok(R2, form, arr, src=None):
    """(ok, text, ratio) of library numbers `arr` in `form` against the reference state R2.  `src`: reference
    description of the state the numbers were converted FROM when that is another orbit (frame change to another
    body): the conversion first goes through the source state's own elements, so its conditioning adds up."""
    if not _finite(arr):
        return False, "non-finite numbers", float("inf")
    er, ev = cart_err(R2, form, arr)
    ee, j = elem_err(R2, form, arr)
    if src is None:
        tol = TOL_CART[R2["conic"]] * R2["cond"]
    else:
        tol = TOL_CART[R2["conic"]] * R2["cond"] + TOL_CART[src["conic"]] * src["cond"]
    ok = max(er, ev) <= tol and ee <= tol
    return ok, f"|dr|/r={er:.3e} |dv|/v={ev:.3e}; worst element #{j} off by {ee:.3e} x scale (tol {tol:.1e})", max(er, ev, ee) / tol


def check_frame(orb, S, t):
    """Earth-centred state in form S -> frame VfHeavyI (other mu, constant offset) by copy(frame=), copy(frame=, form=),
    in-place assignment, and back."""
    from beyond.frames.frames import get_frame

    fr = _forms()
    R = ref_orbit(orb)
    mu2 = float(get_frame("VfHeavyI").center.body.mu)
    rv2 = R["rv"] - np.array(LINK_OFFSET)  # textbook: translation to the new origin, same axes
    R2 = _R_of_state(rv2, mu2, "VfHeavyI")
    case = dict(kind="frame", orbit=list(orb), S=S, config={"frames": "c01"})
    if R2 is None or S not in R2["forms"] or S not in R["forms"]:
        t.exclude("frame change: state outside the property's domain of e / i around the new body, or form undefined for its conic")
        return
    cls = "mu-dependent-form" if S in MU_FORMS else "geometric-form"
    clause = "each form's six numbers equal their textbook definitions computed from the cartesian state (central body of the state's frame)"
    t.states_add(1)
    t.ev(("frame",) + tuple(orb) + (S,))
    body_r2 = float(get_frame("VfHeavyI").center.body.r)

    def examine(obj, Rx, frame, form, what, kind):
        arr = np.array(obj, dtype=float)
        if obj.frame.name != frame or obj.form.name != form:
            t.fail(f"frame-change/{kind}/label", clause, case, [frame, form], [obj.frame.name, obj.form.name], what)
            return False
        # the state was read from / passes through the elements of the orbit around the OTHER body: a near-parabolic
        # or far-out source (cond 1000 at e = 1.001) limits what the new elements can be, however benign they look
        ok, txt, ratio = _state_ok(Rx, form, arr, src=R if Rx is R2 else R2)
        if ok:
            t.margin(f"frame change ({kind}): state and elements vs reference with the new body's mu [rel/cond]", ratio, 1.0, case)
        else:
            t.fail(f"frame-change/{kind}/{cls}", clause, case, Rx["expected"][form], arr, f"{what}: {txt}")
        return ok

    # copy(frame=)
    src = _sv(R, S, R["nums"][S])
    try:
        c = src.copy(frame="VfHeavyI")
        t.trans()
    except Exception as ex:
        t.fail(f"frame-change/copy/raises", clause, case, None, repr(ex), f"{S}: copy(frame='VfHeavyI') raised {ex!r}")
        return
    if examine(c, R2, "VfHeavyI", S, f"{S} in EME2000 -> copy(frame='VfHeavyI')", "copy"):
        ref2 = fr.infos_ref(rv2, mu2)
        csum = R2["cond"] + R["cond"] * TOL_INFO[R["conic"]] / TOL_INFO[R2["conic"]]  # source conditioning adds up (see examine)
        _compare_infos(t, c.infos, ref2, R2["conic"], csum, body_r2, case, lambda name, kind: f"frame-change/infos/{cls}", None,
                       f"infos of the {S} state after copy(frame='VfHeavyI')", "frame change infos.")
        # and back
        try:
            b = c.copy(frame="EME2000")
            t.trans()
            examine(b, R, "EME2000", S, f"{S}: EME2000 -> VfHeavyI -> EME2000", "back")
        except Exception as ex:
            t.fail(f"frame-change/back/raises", clause, case, None, repr(ex), f"{S}: way back raised {ex!r}")
    # in-place assignment
    inp = _sv(R, S, R["nums"][S])
    try:
        inp.frame = "VfHeavyI"
        t.trans()
        examine(inp, R2, "VfHeavyI", S, f"{S} in EME2000, sv.frame = 'VfHeavyI'", "setter")
    except Exception as ex:
        t.fail(f"frame-change/setter/raises", clause, case, None, repr(ex), f"{S}: sv.frame = 'VfHeavyI' raised {ex!r}")
    # copy(frame=, form=T)
    for T in R2["forms"]:
        try:
            d = _sv(R, S, R["nums"][S]).copy(frame="VfHeavyI", form=T)
            t.trans()
        except Exception as ex:
            t.fail(f"frame-change/copy-form/raises", clause, case, None, repr(ex), f"{S}: copy(frame='VfHeavyI', form='{T}') raised {ex!r}")
            continue
        t.ev()
        examine(d, R2, "VfHeavyI", T, f"{S} in EME2000 -> copy(frame='VfHeavyI', form='{T}')", "copy-form")
    t.outcome(("frame", S, R["conic"], R2["conic"]))


def name_variants(name):
    return [name, name.upper(), name.title()]


# the same six integer-valued cartesian components handed to the constructors as different Python / numpy types
ARG_STATES = [
    ("EME2000", [7000000, 1200000, -300000, -1000, 5000, 5500]),      # ellipse
    ("EME2000", [6800000, -2000000, 1500000, 3000, 9000, -7000]),     # hyperbola (v > escape velocity)
    ("VfMoonI", [1900000, 300000, -200000, -200, 1300, 900]),         # ellipse around the Moon
]
def _arg_class(typ):
    """input class of an argument type (signature): all-integer / 32-bit items / anything holding a 64-bit float"""
    return "32-bit-items" if "32" in typ else "all-integer" if "int" in typ and "mixing" not in typ else "float64-or-mixed"


ARG_TYPES = {
    "list-of-float": lambda v: [float(x) for x in v],
    "tuple-of-float": lambda v: tuple(float(x) for x in v),
    "float64-array": lambda v: np.array(v, dtype=np.float64),
    "list-of-int": lambda v: [int(x) for x in v],
    "tuple-of-int": lambda v: tuple(int(x) for x in v),
    "int64-array": lambda v: np.array(v, dtype=np.int64),
    "int32-array": lambda v: np.array(v, dtype=np.int32),
    "float32-array": lambda v: np.array(v, dtype=np.float32),
    "list-mixing-int-and-float": lambda v: [int(x) if k % 2 else float(x) for k, x in enumerate(v)],
    "list-of-numpy-int64": lambda v: [np.int64(x) for x in v],
    "list-of-numpy-float64": lambda v: [np.float64(x) for x in v],
    "list-of-numpy-float32": lambda v: [np.float32(x) for x in v],
}
ARG_FORMS = ["keplerian", "spherical", "keplerian_mean", "equinoctial"]


def check_argtypes(k, typ, t):
    """StateVector / Orbit built from the k-th integer-valued state given as argument type `typ`: same object as from
    floats (bit for bit), same conversions, and those agree with the reference."""
    from beyond.orbits import StateVector, Orbit
    from beyond.frames.frames import get_frame

    frame, vals = ARG_STATES[k]
    mu = float(get_frame(frame).center.body.mu)
    rv = np.array([float(x) for x in vals])
    R = _R_of_state(rv, mu, frame)
    if R is None:
        raise RuntimeError(f"ARG_STATES[{k}] is outside the property's domain")
    case = dict(kind="argtypes", state=k, type=typ, config={"frames": "c01"})
    sig = f"constructor/argument-type/{_arg_class(typ)}"
    clause = "a state built from six numbers holds these numbers, whatever numeric type they are given in"
    for cls in (StateVector, Orbit):
        extra = ("Kepler",) if cls is Orbit else ()
        t.states_add(1)
        t.ev(("arg", k, typ, cls.__name__))
        base = cls([float(x) for x in vals], _W["date"], "cartesian", frame, *extra)
        try:
            obj = cls(ARG_TYPES[typ](vals), _W["date"], "cartesian", frame, *extra)
            t.trans()
        except Exception as ex:
            t.fail(sig, clause, case, rv, repr(ex), f"{cls.__name__}({typ}) raised {ex!r}")
            continue
        arr = np.array(obj)
        if arr.dtype != np.float64 or arr.shape != (6,) or not np.array_equal(arr, rv):
            t.fail(sig, clause, case, rv, [str(arr.dtype), arr], f"{cls.__name__}({typ}) holds {arr.tolist()} (dtype {arr.dtype}) instead of {rv.tolist()}")
            continue
        for T in ARG_FORMS:
            try:
                a = np.array(obj.copy(form=T), dtype=float)
                b = np.array(base.copy(form=T), dtype=float)
                t.trans(2)
            except Exception as ex:
                t.fail(sig, clause, case, None, repr(ex), f"{cls.__name__}({typ}).copy(form={T!r}) raised {ex!r}")
                continue
            ok, txt, ratio = _state_ok(R, T, a)
            if not np.array_equal(a, b) or not ok:
                t.fail(sig, clause, case, b, a, f"{cls.__name__}({typ}).copy(form={T!r}) differs from the same state built from floats / from the reference: {txt}")
            else:
                t.margin("argument types: converted state vs reference [rel/cond]", ratio, 1.0, case)
        t.outcome(("arg", typ, cls.__name__))


def check_names(orb, t):
    """Every name of a form, in any case, through copy(form=), the setter and the constructor."""
    from beyond.orbits import StateVector
    from beyond.orbits import forms as libforms

    R = ref_orbit(orb)
    table = dict(FORM_NAMES)
    for key in libforms._cache:  # data: the names the library accepts
        if key not in table:
            t.cap(f"form name {key!r} accepted by the library is not in the documented table: not examined")
    clause = "a state requested in a form (by any of its names) is in that form"
    for alias, canon in sorted(table.items()):
        if canon not in R["forms"]:
            t.exclude("form name x hyperbolic orbit: form not defined for hyperbolas")
            continue
        for name in name_variants(alias):
            case = dict(kind="names", orbit=list(orb), config={"frames": "c01"})
            sig = f"form-name/{alias}"
            t.states_add(1)
            t.ev(("name",) + tuple(orb) + (name,))
            for route in ("copy", "setter", "constructor"):
                what = f"{route} with form name {name!r} (denotes {canon})"
                try:
                    if route == "copy":
                        obj = _sv(R, "cartesian", R["nums"]["cartesian"]).copy(form=name)
                    elif route == "setter":
                        obj = _sv(R, "cartesian", R["nums"]["cartesian"])
                        obj.form = name
                    else:
                        obj = StateVector(R["nums"][canon], _W["date"], name, R["frame"])
                    t.trans()
                except Exception as ex:
                    t.fail(sig, clause, case, canon, repr(ex), f"{what} raised {ex!r}")
                    continue
                arr = np.array(obj, dtype=float)
                ok = obj.form.name == canon and list(obj.form.param_names) == list(libforms._cache[canon].param_names)
                if ok:
                    ok, txt, ratio = _state_ok(R, canon, arr)
                else:
                    txt = f"form object is {obj.form.name!r}"
                if not ok:
                    t.fail(sig, clause, case, R["expected"][canon], [obj.form.name, arr], f"{what}: {txt}")
                elif route == "constructor":
                    # the numbers given must be read as the form they were given in
                    back = np.array(obj.copy(form="cartesian"), dtype=float)
                    ok2, txt2, _ = _state_ok(R, "cartesian", back)
                    if not ok2:
                        t.fail(sig, clause, case, R["expected"]["cartesian"], back, f"{what}, then copy(form='cartesian'): {txt2}")
            t.outcome(("name", name))

# ---------------------------------------------------------------------------


def _exclusions(orb, t, per):
    if orb[1] > 1:
        t.exclude("hyperbolic orbit x TLE form: n = sqrt(mu/a^3) undefined for a < 0 (property: 'every form that is defined for them')", per)
        t.exclude("hyperbolic orbit x keplerian_mean_circular form: alpha = (w + M) mod 2pi cannot carry a hyperbolic mean anomaly (form not defined for hyperbolas)", per)


def run_unit(p, t):
    if p["part"] == "hist":
        orb = tuple(p["orbit"])
        if p["first"] == H_OPS[0]:
            check_history(orb, p["S"], (), t)
        for ops in histories(p["depth"]):
            if ops and ops[0] == p["first"]:
                check_history(orb, p["S"], ops, t)
        return
    if p["part"] == "argtypes":
        for k in range(len(ARG_STATES)):
            for typ in ARG_TYPES:
                check_argtypes(k, typ, t)
        return
    if p["part"] == "frame":
        for k, orb in enumerate(p["orbits"]):
            orb = tuple(orb)
            for S in ref_orbit(orb)["forms"]:
                check_frame(orb, S, t)
            if orb[2] == INC[1] and orb[5] in (0.5,):
                check_names(orb, t)
        return
    for orb in p["orbits"]:
        orb = tuple(orb)
        R = ref_orbit(orb)
        forms = R["forms"]
        if p["part"] == "pair":
            _exclusions(orb, t, 19)
            for S in forms:
                for T in forms:
                    check_pair(orb, S, T, t)
                check_infos(orb, S, t)
            if len(t.samples) < 2:
                t.sample(dict(kind="pair", orbit=list(orb), forms=forms))
        else:
            _exclusions(orb, t, 271)
            for S in forms:
                for X in forms:
                    check_walks(orb, S, X, t)


def replay(case, t):
    if case["kind"] == "argtypes":
        return check_argtypes(case["state"], case["type"], t)
    orb = tuple(case["orbit"])
    if case["kind"] == "pair":
        check_pair(orb, case["S"], case["T"], t)
    elif case["kind"] == "infos":
        check_infos(orb, case["S"], t)
    elif case["kind"] == "walk":
        check_walks(orb, case["S"], case["X"], t)
    elif case["kind"] == "history":
        check_history(orb, case["S"], tuple(case["ops"]), t)
    elif case["kind"] == "frame":
        check_frame(orb, case["S"], t)
    elif case["kind"] == "names":
        check_names(orb, t)
    else:
        raise ValueError(case["kind"])
