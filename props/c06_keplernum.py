"""C06 — numerical propagation (KeplerNum) converges to the two-body solution.

Every (orbit, integrator, step) of a finite alphabet is executed on the real
`KeplerNum` and compared with two independent references: the textbook
Runge-Kutta schemes of mc/ref/rk.py (same grid -> same nodes to round-off) and
the exact two-body flow of mc/ref/twobody.py (convergence order, local/global
error of the adaptive methods, energy and angular momentum drift).  The request
forms (propagate / iterate, output steps, split requests, backward targets) are
compared with each other within the interpolation resolution.
"""

import itertools
import math

import numpy as np

PROPERTY = "C06"
CLAIM = dict(
    text="Exhaustive product orbit x integrator x step x request form on the real KeplerNum with a point-mass Earth. "
    "Fixed-step integrators must reproduce, node by node and to round-off, an independent march of the textbook tableaux "
    "(this pins every Butcher coefficient and the acceleration); the error against the exact two-body flow must shrink by "
    "2^p when the step is halved; every accepted step of the adaptive methods must equal one textbook RKF4(5)/DOPRI5(4) "
    "step of the same size, stay within 10 x tol of the exact flow, and energy / angular momentum must drift no more than "
    "the corresponding bound; propagate(t) (forward and backward), samples of iter() with three output steps and split "
    "requests must agree within the time resolution of the re-sampling (|v| x 3.3 us, about 25 mm) plus the 8-point interpolation remainder.",
    note="Trusts mc/ref/rk.py (tableaux proved against the order conditions in exact arithmetic) and mc/ref/twobody.py "
    "(universal-variable flow, self-tested against the element formulation). Only the central point-mass body is exercised.",
    technique="exhaustive product over finite input alphabets on the real code vs. independent reference integrators and the exact two-body flow",
)
RULE = (
    "cases = (orbit, method, step[, tol]) marches checked at EVERY node (a node = one evaluation, non-trivial when it is not the "
    "initial state; distinct by (orbit, method, step, node index)); request cases = (orbit, method, step, output step, target, form) "
    "with form in {propagate, iter sample, split propagate, backward propagate}, distinct by that tuple"
)
BOUNDS = {
    "quick": "constructor forms (bodies as one body / list / tuple, one and two bodies); one re-used KeplerNum object: every order of the 4 methods + all ordered pairs of 9 settings (method, step, tol, bodies, frame), each step vs a "
    "fresh propagator (bit-identical) and the textbook scheme (thorough: + all triples); adaptive methods x steps {60, 120} s on the Molniya-like orbit started at apogee, 0.95 period across the perigee: re-sampled streams "
    "(77 s, 2.5 h, dates=DateRange) and propagate() to 4 off-grid dates vs the native nodes and the exact flow; 4 orbits x 4 methods x steps {5,15,30,60,120} s; horizon min(3 periods, 1000 steps) (Euler: P/20 for the order test); "
    "request forms: targets P/20, P/4, -P/4 (+P where <= 600 steps), output steps {own, equal-but-not-identical, 2.5 h, 7 s}",
    "thorough": "cross-perigee cases with steps {15, 30, 60, 120} s and tolerances {1e-3, 1e-4}; same alphabet, horizon 3 periods for every step (up to 51 700 steps), adaptive tolerances {1e-3, 1e-1} m; "
    "request forms: targets P/20, P/4, P, 3P (on-grid), -P/4, -P on and off the grid",
}
ASSUMPTIONS = [
    "central body = get_body('Earth') (point mass at the origin of EME2000, mu taken from the library as data)",
    "orbits are given to the library directly in cartesian EME2000 (no element conversion inside the loop)",
    "round-off tolerance for 'same scheme, same grid' = 1e-6 m + 4 eps r_a N (1+3nt)(1+e)/(1-e): unit round-off per step "
    "times the growth of the Keplerian state-transition matrix",
    "request-form tolerance (the property's 'interpolation error of a few millimetres') = |v_perigee| x 3.3 us (re-sampling abscissae are "
    "MJD doubles: ulp/2 = 0.31 us on every node and on the requested date, amplified by the Lebesgue constants 6.93 / 1.49 of a one-sided / "
    "centred 8-point stencil: 25-30 mm) + twice the worst-case 8-point Lagrange remainder on the exact arc, evaluated by the reference; "
    "the ratio to the design's flat 5 mm is reported as an informative margin",
    "adaptive methods: 'small multiple' = 10 as in DESIGN.md (checked per accepted step against the exact flow); global error bound = "
    "(number of steps) x 10 tol x (1 + 1.5 n t)(1+e)/(1-e): local errors are transported by the two-body flow, whose along-track shear and "
    "perigee/apogee speed ratio amplify them (the design's plain N x 10 tol was met only at 0.78 on the Molniya orbit)",
    "order test: sup-norm position error over the horizon at h and h/2, ratio within a factor 1.6 of 2^p when w_perigee*h <= 0.07, "
    "within a factor 2 for coarser steps (pre-asymptotic h^(p+1) term); pairs whose error is below 100 x the round-off bound are not decidable",
]
NOT_COVERED = (
    "third-body accelerations (only a point-mass central body is in the property), steps outside [5 s, 120 s], hyperbolic orbits, "
    "backward *ranges* (iter) — they belong to C08; off-grid interpolation accuracy beyond the bound above belongs to C09"
)

# ---------------------------------------------------------------------------
# alphabets

ORBITS = {  # a [m], e, i, Omega, omega, nu [rad]
    "leo": (7.0e6, 5e-4, 0.9, 0.3, 0.2, 0.1),
    "e03": (1.0e7, 0.3, 1.1, 2.0, 1.0, 0.5),
    "mol": (2.6554e7, 0.7, 1.106, 3.0, 4.7, 0.3),
    "geo": (4.2164e7, 1e-4, 1e-3, 0.5, 0.3, 2.0),
    # the Molniya-like orbit started at its APOGEE: an adaptive march takes nominal steps first and last and shrinks them only
    # around the perigee, inside the span (used by the cross-perigee request cases only)
    "apo": (2.6554e7, 0.7, 1.106, 3.0, 4.7, math.pi),
}
MAIN_ORBITS = ("leo", "e03", "mol", "geo")
METHODS = ("euler", "rk4", "rkf54", "dopri54")
STEPS = (5, 15, 30, 60, 120)
ORDER = {"euler": 1, "rk4": 4}
EPS = 2.220446049250313e-16
SMALL_MULT = 10.0  # "small multiple of the tolerance"

_G = {}


def setup(config):
    from beyond.config import config as bc

    bc.update({"eop": {"missing_policy": "pass"}})
    from beyond.dates import Date
    from beyond.env.solarsystem import get_body

    _G["earth"] = get_body("Earth")
    _G["mu"] = float(_G["earth"].mu)
    _G["epoch"] = Date(2020, 1, 1)


def A(x):
    return np.array(x, dtype=float)


def y0_of(name):
    from mc.ref import twobody

    return twobody.kep_to_cart(*ORBITS[name], _G["mu"])


def geom(name):
    from mc.ref import twobody

    a, e = ORBITS[name][:2]
    mu = _G["mu"]
    P = twobody.period(a, mu)
    rp, ra = a * (1 - e), a * (1 + e)
    n = 2 * math.pi / P
    w_p = math.sqrt(mu * a * (1 - e * e)) / rp**2  # angular rate at perigee
    return dict(a=a, e=e, P=P, rp=rp, ra=ra, n=n, w_p=w_p, kappa_e=(1 + e) / (1 - e))


def make(name, method, h_us, tol=None):
    from datetime import timedelta
    from beyond.orbits import Orbit
    from beyond.propagators.keplernum import KeplerNum

    kw = {} if tol is None else {"tol": tol}
    prop = KeplerNum(timedelta(microseconds=h_us), _G["earth"], method=method, **kw)
    return Orbit(y0_of(name), _G["epoch"], "cartesian", "EME2000", prop)


def at(us):
    from datetime import timedelta

    return _G["epoch"] + timedelta(microseconds=int(us))


def us_of(date):
    d = date - _G["epoch"]
    return d.days * 86400_000_000 + d.seconds * 1_000_000 + d.microseconds


def roundoff_tol(g, nsteps, t_abs):
    return 1e-6 + 4 * EPS * g["ra"] * max(1, nsteps) * (1 + 3 * g["n"] * abs(t_abs)) * g["kappa_e"]


def kappa_bar(g, t_abs):
    """Mean growth of the Keplerian state-transition matrix over [0, t]: a local position error made at time s shows at
    time t amplified by about (1 + 3 n (t - s)) (along-track drift) times (1+e)/(1-e) (speed ratio perigee/apogee)."""
    return (1 + 1.5 * g["n"] * abs(t_abs)) * g["kappa_e"]


def energy_h(y, mu):
    r, v = y[:3], y[3:]
    return 0.5 * (v @ v) - mu / math.sqrt(r @ r), np.cross(r, v)


def lagrange_remainder(y_at, h, mu):
    """Worst-case error (position, velocity) of an 8-point Lagrange interpolant of the exact arc around the state
    y_at: the point lies in an end interval of the stencil, half a step from the nearest node; both orientations."""
    from mc.ref import twobody

    worst = np.zeros(2)
    for sgn in (1.0, -1.0):
        xs = [sgn * h * (0.5 - k) for k in range(8)]  # nodes at +0.5h, -0.5h, ... -6.5h (or mirrored)
        p = [twobody.propagate_uv(y_at, x, mu) for x in xs]
        # Neville at x = 0
        for m in range(1, 8):
            for i in range(8 - m):
                p[i] = ((0.0 - xs[i + m]) * p[i] - (0.0 - xs[i]) * p[i + 1]) / (xs[i] - xs[i + m])
        d = p[0] - y_at
        worst = np.maximum(worst, [np.linalg.norm(d[:3]), np.linalg.norm(d[3:])])
    return float(worst[0]), float(worst[1])


# Time resolution of the re-sampling: Ephem interpolates on abscissae Date._mjd (a double, in days): every node date and
# the requested date are rounded to ulp(MJD)/2.  |error| <= |x'| (u/2) (1 + Lebesgue(x)) for one interpolation; two are
# compared (one-sided stencil: Lambda <= 6.93, centred: <= 1.49; 8 equispaced nodes).
U_MJD = math.ulp(58849.0) * 86400.0
QUANT = 0.5 * U_MJD * ((1 + 6.9297) + (1 + 1.4883))


def interp_tol(name, us, h):
    """(position, velocity) tolerance for two differently re-sampled values of the same numerical solution."""
    from mc.ref import twobody

    mu = _G["mu"]
    g = geom(name)
    yat = twobody.propagate_uv(y0_of(name), us * 1e-6, mu)
    lr, lv = lagrange_remainder(yat, float(h), mu)
    v_p = math.sqrt(mu * (2 / g["rp"] - 1 / g["a"]))
    a_p = mu / g["rp"] ** 2
    return v_p * QUANT + 2 * lr, a_p * QUANT + 2 * lv


# ---------------------------------------------------------------------------
# units


def horizon_steps(tier, name, h, method, tol_variant=False):
    g_P = _period(name)
    n3 = int(math.floor(3 * g_P / h))
    if tier == "quick":
        return min(n3, 1000)
    return n3


def _period(name):
    # mu of the library is only known in the worker; units() needs just a size estimate -> nominal mu
    a = ORBITS[name][0]
    return 2 * math.pi * math.sqrt(a**3 / 3.986004418e14)


def units(tier, seed):
    cfg = {"eop": "pass"}
    u = []
    for name in MAIN_ORBITS:
        for method in METHODS:
            for h in STEPS:
                n = horizon_steps(tier, name, h, method)
                tols = [None]
                if tier == "thorough" and method in ("rkf54", "dopri54"):
                    tols = [None, 1e-1]
                for tol in tols:
                    u.append((cfg, dict(part="march", orbit=name, method=method, h=h, n=n, tol=tol)))
                u.append((cfg, dict(part="req", orbit=name, method=method, h=h, tier=tier)))
    for method in ("rkf54", "dopri54"):
        for h in ((60, 120) if tier == "quick" else (15, 30, 60, 120)):
            for tol in ((None,) if tier == "quick" else (None, 1e-4)):
                u.append((cfg, dict(part="xper", orbit="apo", method=method, h=h, tol=tol)))
    # one RE-USED propagator object whose settings are changed between propagations
    seqs = [list(x) for x in itertools.permutations(range(4))]  # every order of the four methods (settings 0..3)
    seqs += [list(x) for x in itertools.permutations(range(len(SETTINGS)), 2)]
    if tier == "thorough":
        seqs += [list(x) for x in itertools.product(range(len(SETTINGS)), repeat=3) if x[0] != x[1] and x[1] != x[2]]
    per = max(1, len(seqs) // (4 if tier == "quick" else 16))
    for i in range(0, len(seqs), per):
        u.append((cfg, dict(part="reuse", method="rk4", h=60, orbit="e03", seqs=seqs[i : i + per])))
    u.append((cfg, dict(part="ctor", method="rk4", h=60, orbit="e03")))
    # heavy units first (longest-processing-time scheduling)
    u.sort(key=lambda x: -_cost(x[1]))
    return u


def _cost(p):
    per = {"euler": 1, "rk4": 4, "rkf54": 9, "dopri54": 10}[p["method"]]
    if p["part"] == "march":
        return p["n"] * per * (1.6 if p["method"] in ORDER else 1.0)
    P = _period(p["orbit"])
    if p["part"] == "ctor":
        return 5000
    if p["part"] == "reuse":
        return 200 * len(p["seqs"])
    if p["part"] == "xper":
        return 6 * P / min(p["h"], 60) * per
    mult = 6 if p["tier"] == "quick" else 16
    return min(P / p["h"], 600 if p["tier"] == "quick" else 1e9) * per * mult


def run_unit(p, t):
    check_case(dict(p), t)


def replay(case, t):
    check_case(dict(case), t)


def check_case(case, t):
    if case["part"] == "march":
        if case["method"] in ORDER:
            check_fixed_march(case, t)
        else:
            check_adaptive_march(case, t)
    elif case["part"] == "xper":
        check_cross_perigee(case, t)
    elif case["part"] == "ctor":
        check_constructor_forms(case, t)
    elif case["part"] == "reuse":
        for seq in case["seqs"]:
            check_reuse(dict(part="reuse", orbit=case["orbit"], seq=seq), t)
    elif case["part"] == "reuse1":
        check_reuse(case, t)
    else:
        check_requests(case, t)


# ---------------------------------------------------------------------------
# O1 + O2 (fixed step)


def _lib_nodes(orb, stop_us, t, case, sig_prefix, **kw):
    """list(orb.iter(stop=...)) -> [(us, y)], or None after recording a failure if the library raises."""
    try:
        out = [(us_of(o.date), A(o)) for o in orb.iter(stop=at(stop_us), **kw)]
    except (ValueError, RuntimeError, ArithmeticError, AttributeError, TypeError, KeyError, IndexError) as e:
        t.fail(sig_prefix + "/raises-" + type(e).__name__, "propagation returns a state", case, "states", repr(e)[:300])
        return None
    return out


def check_fixed_march(case, t):
    from mc.ref import rk, twobody

    name, method, h, n = case["orbit"], case["method"], case["h"], case["n"]
    mu = _G["mu"]
    g = geom(name)
    y0 = y0_of(name)
    tab = rk.TABLEAUX[method]
    f = rk.two_body_rhs(mu)
    h_us = h * 1_000_000
    base = dict(part="march", orbit=name, method=method, h=h, tol=None)

    nodes = _lib_nodes(make(name, method, h_us), n * h_us, t, dict(base, n=n), f"KeplerNum/{method}/march")
    if nodes is None:
        return
    t.trans(n)
    if [u for u, _ in nodes] != [k * h_us for k in range(n + 1)]:
        t.fail(f"KeplerNum/{method}/march/node-dates", "nodes of the march are epoch + k*step", dict(base, n=n),
               f"{n+1} nodes every {h} s", [u for u, _ in nodes][:5] + ["...", len(nodes)])
        return
    ref = rk.march(tab, f, 0.0, y0, float(h), n)
    E0, H0 = energy_h(y0, mu)
    H0n = np.linalg.norm(H0)
    sup_err = 0.0
    sup_dE = 0.0
    sup_dH = 0.0
    n_o2 = n if method == "rk4" else max(1, min(n, int(g["P"] / 20 / h)))
    failed = False
    for k, ((u, y), (tr, yr)) in enumerate(zip(nodes, ref)):
        t.ev(("M", name, method, h, k) if k else None)
        dr = float(np.linalg.norm(y[:3] - yr[:3]))
        dv = float(np.linalg.norm(y[3:] - yr[3:]))
        tol = roundoff_tol(g, k, k * h)
        ok = t.margin(f"O1 {method} node vs textbook scheme / round-off bound", max(dr, dv / g["w_p"]), tol)
        if not ok and not failed:
            failed = True
            t.fail(f"KeplerNum/{method}/node-vs-textbook-scheme", "fixed-step march equals the textbook scheme on the same grid",
                   dict(base, n=k), [float(x) for x in yr], [float(x) for x in y],
                   f"{name} h={h}s node {k}: |dr|={dr:.3e} m, |dv|={dv:.3e} m/s, round-off bound {tol:.2e}")
        if k <= n_o2:
            ex = twobody.propagate_uv(y0, k * float(h), mu)
            sup_err = max(sup_err, float(np.linalg.norm(y[:3] - ex[:3])))
            Ek, Hk = energy_h(y, mu)
            sup_dE = max(sup_dE, abs(Ek - E0) / abs(E0))
            sup_dH = max(sup_dH, float(np.linalg.norm(Hk - H0)) / H0n)
    t.states_add(n + 1)
    t.outcome(("march", method, "ok" if not failed else "bad"))
    if failed or case.get("no_o2"):
        return
    # ---- O2: same horizon with h/2 (real code again) ------------------------------------
    h2_us = h_us // 2
    n2 = 2 * n_o2
    nodes2 = _lib_nodes(make(name, method, h2_us), n2 * h2_us, t, dict(base, n=n), f"KeplerNum/{method}/march")
    if nodes2 is None:
        return
    t.trans(n2)
    sup2 = dE2 = dH2 = 0.0
    for k, (u, y) in enumerate(nodes2):
        if k % 2:
            continue
        ex = twobody.propagate_uv(y0, k * h / 2.0, mu)
        sup2 = max(sup2, float(np.linalg.norm(y[:3] - ex[:3])))
        Ek, Hk = energy_h(y, mu)
        dE2 = max(dE2, abs(Ek - E0) / abs(E0))
        dH2 = max(dH2, float(np.linalg.norm(Hk - H0)) / H0n)
    p = ORDER[method]
    floor = 100 * roundoff_tol(g, n2, n_o2 * h)
    c2 = dict(base, n=n, check="order")
    t.ev(("O2", name, method, h))
    if sup2 < floor or sup_err < floor:
        t.exclude("order ratio undecidable in double precision (error below 100 x round-off bound)")
        t.outcome(("order", method, "floor"))
    else:
        ratio = sup_err / sup2
        dev = max(ratio / 2**p, 2**p / ratio)
        t.outcome(("order", method, round(math.log2(ratio), 1)))
        # window: factor 1.6 (DESIGN.md) in the asymptotic regime; for coarse steps (w_perigee*h > 0.07) the next term of the
        # error expansion contributes O(w h) to the ratio (measured: 25 at w h = 0.14, 16.1-16.4 at h = 5 s): there the
        # order is only required to be identified to within one unit (factor 2)
        win = 1.6 if g["w_p"] * h <= 0.07 else 2.0
        if not t.margin(f"O2 {method} |log(error ratio / 2^p)| / log(window)", math.log(dev), math.log(win)):
            t.fail(f"KeplerNum/{method}/convergence-order", f"error shrinks by 2^{p} when the step is halved (within a factor {win})", c2,
                   2**p, ratio, f"{name} h={h}->{h/2}: sup error {sup_err:.4e} -> {sup2:.4e} m over {n_o2*h} s")
    # drifts shrink at least at the order of the scheme (one-sided), unless at the round-off floor
    for lab, d1, d2, fl in (("energy", sup_dE, dE2, 1e3 * EPS * n2), ("ang.momentum", sup_dH, dH2, 1e3 * EPS * n2)):
        if d1 < fl:
            t.exclude(f"{lab} drift below round-off floor")
            continue
        bound = d1 * 1.6 / 2**p + fl
        if not t.margin(f"O2 {method} {lab} drift(h/2) / (1.6 drift(h)/2^p)", d2, bound):
            t.fail(f"KeplerNum/{method}/{lab}-drift-order", "conserved quantities drift within the bound of the scheme's order", c2,
                   bound, d2, f"{name} h={h}: relative {lab} drift {d1:.3e} at h, {d2:.3e} at h/2")


# ---------------------------------------------------------------------------
# O1' + O3 (adaptive)


def check_adaptive_march(case, t):
    from mc.ref import rk, twobody

    name, method, h, n, tolv = case["orbit"], case["method"], case["h"], case["n"], case.get("tol")
    mu = _G["mu"]
    g = geom(name)
    y0 = y0_of(name)
    tab = rk.TABLEAUX[method]
    f = rk.two_body_rhs(mu)
    h_us = h * 1_000_000
    tol_ad = 1e-3 if tolv is None else tolv
    base = dict(part="march", orbit=name, method=method, h=h, tol=tolv)
    nodes = _lib_nodes(make(name, method, h_us, tolv), n * h_us, t, dict(base, n=n), f"KeplerNum/{method}/march", real_steps=True)
    if nodes is None:
        return
    t.trans(len(nodes) - 1)
    t.states_add(len(nodes))
    E0, H0 = energy_h(y0, mu)
    H0n = np.linalg.norm(H0)
    if nodes[0][0] != 0 or float(np.max(np.abs(nodes[0][1] - y0))) > 0:
        t.fail(f"KeplerNum/{method}/march/first-node", "first node is the initial state", dict(base, n=1), [float(x) for x in y0],
               [nodes[0][0]] + [float(x) for x in nodes[0][1]])
        return
    seen = set()
    shrunk = 0
    for k in range(len(nodes) - 1):
        (u0, ya), (u1, yb) = nodes[k], nodes[k + 1]
        dt = (u1 - u0) * 1e-6
        kc = dict(base, n=int(math.ceil(u1 / h_us)) + 1, node=k + 1)
        t.ev(("M", name, method, h, tolv, k + 1))
        if not (0 < u1 - u0 <= h_us):
            if "step" not in seen:
                seen.add("step")
                t.fail(f"KeplerNum/{method}/step-size-range", "accepted steps are positive and never exceed the propagator's step", kc,
                       f"0 < dt <= {h}", dt)
            continue
        if u1 - u0 < h_us:
            shrunk += 1
        # one textbook step of the same size from the library's own node
        yr, err = rk.rk_step(tab, f, 0.0, ya, dt)
        d1 = max(float(np.linalg.norm(yb[:3] - yr[:3])), float(np.linalg.norm(yb[3:] - yr[3:])) / g["w_p"])
        if not t.margin(f"O1 {method} accepted step vs one textbook step / round-off", d1, 1e-6 + 64 * EPS * g["ra"]) and "one" not in seen:
            seen.add("one")
            t.fail(f"KeplerNum/{method}/step-vs-textbook-scheme", "an accepted step equals one step of the published tableau", kc,
                   [float(x) for x in yr], [float(x) for x in yb], f"{name} h={h}s step {k}: dt={dt} differs by {d1:.3e} m")
        est = float(np.linalg.norm(err[:3]))
        ex = twobody.propagate_uv(ya, dt, mu)
        loc = float(np.linalg.norm(yb[:3] - ex[:3]))
        okl = t.margin(f"O3 {method} local error / (10 tol)", loc, SMALL_MULT * tol_ad)
        oke = t.margin(f"O3 {method} embedded estimate of accepted step / (10 tol)", est, SMALL_MULT * tol_ad)
        if not (okl and oke) and "loc" not in seen:
            seen.add("loc")
            t.fail(f"KeplerNum/{method}/local-error-above-tolerance", "each accepted step stays within a small multiple (10) of tol", kc,
                   SMALL_MULT * tol_ad, dict(local_error=loc, embedded_estimate=est), f"{name} h={h}s step {k} dt={dt}")
        exg = twobody.propagate_uv(y0, u1 * 1e-6, mu)
        glob = float(np.linalg.norm(yb[:3] - exg[:3]))
        nst = k + 1
        gb = nst * SMALL_MULT * tol_ad * kappa_bar(g, u1 * 1e-6)
        if not t.margin(f"O3 {method} global error / (N 10 tol kappa)", glob, gb) and "glob" not in seen:
            seen.add("glob")
            t.fail(f"KeplerNum/{method}/global-error", "global error <= (number of steps) x 10 tol x growth of the two-body flow", kc, gb, glob,
                   f"{name} h={h}s after {nst} steps")
        Ek, Hk = energy_h(yb, mu)
        # |dE| <= v|dv| + mu/r^2 |dr| <= 5 mu/rp^2 eps_r (|dv| <= 2 w eps_r) ; relative to |E| = mu/2a
        bE = nst * SMALL_MULT * tol_ad * 10 * g["a"] / g["rp"] ** 2
        bH = nst * SMALL_MULT * tol_ad * 3 / g["rp"]  # |dh|/h <= (|dr| v + r |dv|)/(r v cos(fpa))
        okE = t.margin(f"O3 {method} energy drift / bound", abs(Ek - E0) / abs(E0), bE)
        okH = t.margin(f"O3 {method} ang.momentum drift / bound", float(np.linalg.norm(Hk - H0)) / H0n, bH)
        if not (okE and okH) and "cons" not in seen:
            seen.add("cons")
            t.fail(f"KeplerNum/{method}/conserved-drift", "energy / angular momentum drift within the bound implied by 10 tol per step", kc,
                   dict(energy=bE, h=bH), dict(energy=abs(Ek - E0) / abs(E0), h=float(np.linalg.norm(Hk - H0)) / H0n))
    t.outcome(("adaptive", method, "shrunk" if shrunk else "full-steps"))
    if shrunk:
        t.ev(("adaptive-step-control-active", name, method, h, tolv))


# ---------------------------------------------------------------------------
# O4 request forms


def stencil_spread(nodes, h, x):
    """Textbook 8-point Lagrange interpolation (Neville) of the node sequence `nodes` = [(t_k, y_k)] (t_k = k*h, h of
    any sign) at time x, over EVERY stencil of 8 consecutive nodes whose span contains x.
    Returns (value on the most centred stencil, max position deviation, max velocity deviation among stencils)."""
    K = len(nodes) - 1
    j0 = min(max(int(math.floor(x / h)), 0), K - 1)
    starts = range(max(0, j0 - 6), min(j0, K - 7) + 1)
    centre = min(max(j0 - 3, 0), K - 7)
    vals = {}
    for s0 in starts:
        xs = [nodes[s0 + i][0] - x for i in range(8)]
        p = [nodes[s0 + i][1] for i in range(8)]
        for m in range(1, 8):
            for i in range(8 - m):
                p[i] = (-xs[i + m] * p[i] + xs[i] * p[i + 1]) / (xs[i] - xs[i + m])
        vals[s0] = p[0]
    c = vals[centre]
    sr = max(float(np.linalg.norm((v - c)[:3])) for v in vals.values())
    sv = max(float(np.linalg.norm((v - c)[3:])) for v in vals.values())
    return c, sr, sv


LIBERR = (ValueError, RuntimeError, ArithmeticError, AttributeError, TypeError, KeyError, IndexError)


def check_requests(case, t):
    from datetime import timedelta
    from mc.ref import rk, twobody

    name, method, h, tier = case["orbit"], case["method"], case["h"], case["tier"]
    only = case.get("only")  # replay: restrict to one sub-case key
    mu = _G["mu"]
    g = geom(name)
    y0 = y0_of(name)
    h_us = h * 1_000_000
    P = g["P"]
    fixed = method in ORDER
    tab = rk.TABLEAUX[method]
    f = rk.two_body_rhs(mu)
    base = dict(part="req", orbit=name, method=method, h=h, tier=tier)
    nmax = 600 if tier == "quick" else 10**9
    v_p = math.sqrt(mu * (2 / g["rp"] - 1 / g["a"]))
    a_p = mu / g["rp"] ** 2

    fw = [P / 20, P / 4] + ([P] if P / h <= nmax else [])
    bw = [P / 4] + ([P] if tier == "thorough" else [])
    souts = [("own", None), ("equal", h_us), ("2.5h", int(2.5 * h_us)), ("7s", 7_000_000)]

    def propagate(orb, us, key):
        try:
            r = orb.propagate(at(us))
            t.trans()
        except LIBERR as e:
            t.fail(f"KeplerNum/{method}/propagate/raises-{type(e).__name__}", "propagate returns a state", dict(base, only=key),
                   "state", repr(e)[:300], f"{name} h={h}s target {us*1e-6:+.6f} s")
            return None
        if us_of(r.date) != us:
            t.fail(f"KeplerNum/{method}/propagate/date", "propagate(t) returns a state dated t", dict(base, only=key), us, us_of(r.date))
            return None
        return r

    # reference node sequences of the fixed-step schemes (forward and backward), marched once
    ref_fw = ref_bw = None
    if fixed:
        kmax = int(max(fw) / h) + 12
        ref_fw = rk.march(tab, f, 0.0, y0, float(h), kmax)
        ref_bw = rk.march(tab, f, 0.0, y0, -float(h), int(max(bw) / h) + 12)

    def tolerances(us):
        """(reference value or None, position tol, velocity tol, label) for a re-sampled state at `us`."""
        if fixed:
            nodes = ref_fw if us >= 0 else ref_bw
            hh = float(h) if us >= 0 else -float(h)
            nst = abs(us) // h_us + 1
            ro = roundoff_tol(g, nst, us * 1e-6)
            if us % h_us == 0:
                return nodes[abs(us) // h_us][1], ro, ro * g["w_p"], "node of the textbook scheme / round-off bound"
            c, sr, sv = stencil_spread(nodes, hh, us * 1e-6)
            return c, v_p * QUANT + 2 * sr + ro, a_p * QUANT + 2 * sv + ro * g["w_p"], \
                "textbook 8-pt Lagrange of the scheme's nodes / (time resolution + stencil spread)"
        tr, tv = interp_tol(name, us, h)
        return None, tr, tv, "(time resolution + interpolation remainder)"

    def compare(lab, sig, clause, c, got, want, tr, tv, detail):
        d = float(np.linalg.norm(got[:3] - want[:3]))
        dv = float(np.linalg.norm(got[3:] - want[3:]))
        if not t.margin(lab, max(d / tr, dv / tv), 1.0):
            t.fail(sig, clause, c, [float(x) for x in want], [float(x) for x in got],
                   f"{detail}: |dr|={d:.4e} m (tol {tr:.3e}), |dv|={dv:.3e} m/s (tol {tv:.3e})")
        return d

    # ---- forward: propagate(t) vs sample of iter(stop, step_out) ------------------------------
    for so_name, so in souts:
        if so_name == "own" and not fixed:
            t.exclude("own-step iteration of an adaptive method yields the accepted nodes, not a regular grid (see C08)")
            continue
        so_eff = h_us if so is None else so
        tg = []
        for tau in fw:
            kk = max(1, round(tau * 1e6 / so_eff))
            tg.append((kk, kk * so_eff))
        keyb = f"fw/{so_name}"
        if only and not only.startswith(keyb):
            continue
        stop_us = (max(u for _, u in tg) // h_us + 9) * h_us  # on the march grid: the stream must cover every target
        orb = make(name, method, h_us)
        kw = {} if so is None else {"step": timedelta(microseconds=so)}
        try:
            samples = [(us_of(o.date), A(o)) for o in orb.iter(stop=at(stop_us), **kw)]
            t.trans(len(samples))
        except LIBERR as e:
            t.fail(f"KeplerNum/{method}/iter/raises-{type(e).__name__}", "iter yields states", dict(base, only=keyb), "states", repr(e)[:300],
                   f"{name} h={h}s stop={stop_us*1e-6}s step={so_name}")
            continue
        for kk, us in tg:
            key = f"{keyb}/{us}"
            if only and only != key:
                continue
            c = dict(base, only=key)
            ongrid = us % h_us == 0
            og = "on" if ongrid else "off"
            t.ev(("R", name, method, h, so_name, us))
            t.state(("R", name, method, h, so_name, us))
            if kk >= len(samples) or samples[kk][0] != us:
                t.fail(f"KeplerNum/{method}/iter/sample-dates", "iter(stop, step) yields epoch + k*step", c, us,
                       samples[kk][0] if kk < len(samples) else len(samples), f"{name} h={h}s step={so_name} index {kk}")
                continue
            p = propagate(make(name, method, h_us), us, key)
            if p is None:
                continue
            yp, ys = A(p), samples[kk][1]
            refv, tr, tv, lab = tolerances(us)
            t.outcome(("req", so_name, og))
            info = f"{name} h={h}s t={us*1e-6}s step_out={so_name}"
            d = compare(f"O4 propagate vs iter sample [{og}-grid] / " + (lab if not (fixed and ongrid) else "round-off bound"),
                        f"KeplerNum/{method}/propagate-vs-iter/{so_name}/{og}-grid",
                        "the state for a date does not depend on output step or request form", c, yp, ys, tr, tv, info)
            t.margin("O4 propagate vs iter sample, position / 5 mm (informative only: the design's flat figure)", d, 5e-3)
            if refv is not None:
                compare(f"O4 iter sample [{og}-grid] vs " + lab, f"KeplerNum/{method}/iter-sample-vs-scheme/{so_name}/{og}-grid",
                        "re-sampled states interpolate the nodes of the scheme", c, ys, refv, tr, tv, info)
                compare(f"O4 propagate [{og}-grid] vs " + lab, f"KeplerNum/{method}/propagate-vs-scheme/{og}-grid",
                        "propagate(t) interpolates the nodes of the scheme", c, yp, refv, tr, tv, info)
            else:
                # accuracy of the adaptive methods against the exact flow
                ex = twobody.propagate_uv(y0, us * 1e-6, mu)
                nst = int(math.ceil(us / h_us)) + 8
                ge = float(np.linalg.norm(yp[:3] - ex[:3]))
                gb = nst * SMALL_MULT * 1e-3 * kappa_bar(g, us * 1e-6) + tr
                if not t.margin("O3 propagate (adaptive) global error / (N 10 tol kappa + interp)", ge, gb):
                    t.fail(f"KeplerNum/{method}/propagate/global-error", "adaptive propagate stays within N x 10 tol x flow growth of the exact flow", c,
                           gb, ge, info)

    # ---- split request: propagate(t_mid) then propagate(t) from the returned orbit ------------
    key = "split"
    if not only or only == key:
        n_t = max(2, round(P / 4 / h))
        n_mid = n_t // 2
        us_t, us_mid = n_t * h_us, n_mid * h_us
        c = dict(base, only=key)
        t.ev(("S", name, method, h))
        t.state(("S", name, method, h))
        o_mid = propagate(make(name, method, h_us), us_mid, key)
        direct = propagate(make(name, method, h_us), us_t, key)
        if o_mid is not None and direct is not None:
            two = None
            try:
                two = o_mid.propagate(at(us_t))
                t.trans()
            except LIBERR as e:
                t.fail(f"KeplerNum/{method}/split/raises-{type(e).__name__}", "a returned orbit can be propagated further", c, "state", repr(e)[:300])
            if two is not None:
                if fixed:
                    tr = roundoff_tol(g, n_t, us_t * 1e-6)
                    lab = "O4 split propagate (on-grid) / round-off bound"
                else:
                    tr = 2 * (n_t + 8) * SMALL_MULT * 1e-3 * kappa_bar(g, us_t * 1e-6) + interp_tol(name, us_t, h)[0]
                    lab = "O4 split propagate (adaptive) / (2 N 10 tol kappa + interp)"
                compare(lab, f"KeplerNum/{method}/split-request", "propagate(t) = propagate(t_mid) then propagate(t)", c, A(two), A(direct),
                        tr, tr * g["w_p"] * 3, f"{name} h={h}s: {us_mid*1e-6}s + rest = {us_t*1e-6}s")

    # ---- 3 periods, on-grid (thorough) --------------------------------------------------------
    if tier == "thorough" and fixed and (not only or only == "3P"):
        n3 = int(3 * P / h)
        c = dict(base, only="3P")
        t.ev(("3P", name, method, h))
        t.state(("3P", name, method, h))
        p = propagate(make(name, method, h_us), n3 * h_us, "3P")
        if p is not None:
            yr = rk.march(tab, f, 0.0, y0, float(h), n3)[-1][1]
            tr = roundoff_tol(g, n3, 3 * P)
            compare("O4 propagate(3P) vs textbook scheme / round-off bound", f"KeplerNum/{method}/propagate-vs-scheme/on-grid",
                    "propagate to an on-grid date returns the node of the scheme", c, A(p), yr, tr, tr * g["w_p"], f"{name} h={h}s 3P")

    # ---- backward targets (propagate only) ----------------------------------------------------
    for tau in bw:
        for kind in ("on", "off"):
            if kind == "on":
                us = -max(1, round(tau / h)) * h_us
            else:
                us = -max(1, round(tau / 7.0)) * 7_000_000
                if us % h_us == 0:
                    us -= 7_000_000
            key = f"bw/{kind}/{us}"
            if only and only != key:
                continue
            c = dict(base, only=key)
            t.ev(("B", name, method, h, us))
            t.state(("B", name, method, h, us))
            orb = make(name, method, h_us)
            calls = []
            real = orb.propagator._make_step

            def counting(o, s, _real=real, _calls=calls):  # observation hook: number and size of accepted steps
                r = _real(o, s)
                _calls.append(r[0].total_seconds())
                return r

            orb.propagator._make_step = counting
            p = propagate(orb, us, key)
            if p is None:
                continue
            if not calls or any(s >= 0 for s in calls):
                t.fail(f"KeplerNum/{method}/propagate/backward-steps", "a backward target is reached with negative steps", c, "<0", calls[:5])
                continue
            yp = A(p)
            nst = len(calls)
            t.outcome(("bw", kind, method))
            info = f"{name} h={h}s t={us*1e-6}s"
            if fixed:
                refv, tr, tv, lab = tolerances(us)
                compare(f"O1/O4 backward propagate [{kind}-grid] vs " + lab, f"KeplerNum/{method}/propagate-vs-scheme/backward-{kind}-grid",
                        "a backward target reached by propagate lies on the scheme marched with -step", c, yp, refv, tr, tv, info)
            else:
                ex = twobody.propagate_uv(y0, us * 1e-6, mu)
                ge = float(np.linalg.norm(yp[:3] - ex[:3]))
                tol = nst * SMALL_MULT * 1e-3 * kappa_bar(g, us * 1e-6) + interp_tol(name, us, h)[0]
                if not t.margin("O3 backward propagate (adaptive) global error / (N 10 tol kappa + interp)", ge, tol):
                    t.fail(f"KeplerNum/{method}/propagate/backward-global-error", "adaptive backward propagate stays within N x 10 tol of the exact flow", c,
                           tol, ge, f"{info}, {nst} steps")


# ---------------------------------------------------------------------------
# O4 for adaptive marches whose steps shrink INSIDE the span (apogee -> perigee -> towards apogee)


def stencil_spread_irregular(ts, ys, x):
    """As stencil_spread, for arbitrary increasing node times ts (seconds): 8-point Lagrange (Neville) at x on every stencil of
    8 consecutive nodes whose span contains x. Returns (value on the most centred stencil, position spread, velocity spread)."""
    import bisect

    K = len(ts) - 1
    j0 = min(max(bisect.bisect_right(ts, x) - 1, 0), K - 1)
    starts = range(max(0, j0 - 6), min(j0, K - 7) + 1)
    centre = min(max(j0 - 3, 0), K - 7)
    vals = {}
    for s0 in starts:
        xs = [ts[s0 + i] - x for i in range(8)]
        p = [ys[s0 + i] for i in range(8)]
        for m in range(1, 8):
            for i in range(8 - m):
                p[i] = (-xs[i + m] * p[i] + xs[i] * p[i + 1]) / (xs[i] - xs[i + m])
        vals[s0] = p[0]
    c = vals[centre]
    sr = max(float(np.linalg.norm((v - c)[:3])) for v in vals.values())
    sv = max(float(np.linalg.norm((v - c)[3:])) for v in vals.values())
    return c, sr, sv


def check_cross_perigee(case, t):
    from datetime import timedelta
    from beyond.dates import Date
    from mc.ref import twobody

    name, method, h, tolv = case["orbit"], case["method"], case["h"], case.get("tol")
    only = case.get("only")
    mu = _G["mu"]
    g = geom(name)
    y0 = y0_of(name)
    h_us = h * 1_000_000
    P = g["P"]
    tol_ad = 1e-3 if tolv is None else tolv
    base = dict(part="xper", orbit=name, method=method, h=h, tol=tolv)
    v_p = math.sqrt(mu * (2 / g["rp"] - 1 / g["a"]))
    a_p = mu / g["rp"] ** 2
    T_us = int(round(0.95 * P / h)) * h_us
    # ---- the native nodes of the march (the re-sampled requests below run the very same march) -----------------------
    nodes = _lib_nodes(make(name, method, h_us, tolv), T_us, t, base, f"KeplerNum/{method}/march", real_steps=True)
    if nodes is None:
        return
    t.trans(len(nodes) - 1)
    ts = [u * 1e-6 for u, _ in nodes]
    ys = [y for _, y in nodes]
    dts = [b[0] - a[0] for a, b in zip(nodes, nodes[1:])]
    inside = min(dts[1:-1]) < h_us if len(dts) > 2 else False
    nominal_ends = dts[0] == h_us and dts[-1] == h_us
    t.outcome(("xper", method, h, "shrunk-inside" if inside else "no-shrink", "nominal-ends" if nominal_ends else "shrunk-ends"))
    if not (inside and nominal_ends):
        t.exclude("cross-perigee march without the pattern 'nominal first and last step, shorter steps inside' (case kept, not counted as non-trivial)")
    nst = len(dts)

    def judge(us, y, form, c):
        """A re-sampled state at `us` against (i) textbook Lagrange of the native nodes and (ii) the exact flow."""
        x = us * 1e-6
        if us in {u for u, _ in nodes}:
            refv, sr, sv = ys[[u for u, _ in nodes].index(us)], 0.0, 0.0
        else:
            refv, sr, sv = stencil_spread_irregular(ts, ys, x)
        tr = v_p * QUANT + 2 * sr + 1e-6
        tv = a_p * QUANT + 2 * sv + 1e-9
        d, dv = float(np.linalg.norm(y[:3] - refv[:3])), float(np.linalg.norm(y[3:] - refv[3:]))
        ok = True
        if not t.margin("O4 adaptive across perigee: re-sampled state vs textbook 8-pt Lagrange of the native nodes / (time resolution + stencil spread)",
                        max(d / tr, dv / tv), 1.0):
            ok = False
            t.fail(f"KeplerNum/{method}/resampled-vs-native-nodes/{form}", "a re-sampled state interpolates the nodes of the march around its date", c,
                   [float(v) for v in refv], [float(v) for v in y],
                   f"{name} h={h}s tol={tol_ad} {form} t={x}s: |dr|={d:.4e} m (tol {tr:.3e}), |dv|={dv:.3e} (tol {tv:.3e})")
        ex = twobody.propagate_uv(y0, x, mu)
        ge = float(np.linalg.norm(y[:3] - ex[:3]))
        gb = nst * SMALL_MULT * tol_ad * kappa_bar(g, x) + tr
        if not t.margin("O4 adaptive across perigee: re-sampled state vs exact flow / (N 10 tol kappa + interp)", ge, gb) and ok:
            ok = False
            t.fail(f"KeplerNum/{method}/resampled-vs-exact-flow/{form}", "the state for a date stays within the accuracy of the march whatever the request form", c,
                   gb, ge, f"{name} h={h}s tol={tol_ad} {form} t={x}s")
        return ok

    # ---- re-sampled streams: output step != native, (start, stop, step) and dates=DateRange ------------------------------
    for form, so in (("step-77s", 77_000_000), ("step-2.5h", int(2.5 * h_us)), ("dates-77s", 77_000_000)):
        if only and only != form:
            continue
        c = dict(base, only=form)
        orb = make(name, method, h_us, tolv)
        try:
            if form.startswith("dates"):
                last = (T_us // so) * so
                it = orb.iter(dates=Date.range(at(0), at(last), timedelta(microseconds=so), inclusive=True))
            else:
                it = orb.iter(stop=at(T_us), step=timedelta(microseconds=so))
            samples = [(us_of(o.date), A(o)) for o in it]
            t.trans(len(samples))
        except LIBERR as e:
            t.fail(f"KeplerNum/{method}/iter/raises-{type(e).__name__}", "iter yields states", c, "states", repr(e)[:300], f"{name} h={h}s {form}")
            continue
        if [u for u, _ in samples][: T_us // so + 1] != [k * so for k in range(T_us // so + 1)]:
            t.fail(f"KeplerNum/{method}/iter/sample-dates", "iter(stop, step) yields epoch + k*step", c, "k*step", [u for u, _ in samples][:5], f"{name} h={h}s {form}")
            continue
        bad = 0
        for u, y in samples:
            if u > T_us:
                break
            t.ev(("X", method, h, tolv, form, u) if inside and nominal_ends else None)
            if not judge(u, y, form, c):
                bad += 1
                if bad >= 3:
                    break
        t.states_add(len(samples))
    # ---- propagate() to off-grid dates before / inside / after the perigee passage --------------------------------------
    for frac in (0.30, 0.55, 0.70, 0.90):
        form = f"propagate-{frac:.2f}P"
        if only and only != form:
            continue
        us = int(frac * P / 7.0) * 7_000_000 + 1_000_000
        c = dict(base, only=form)
        t.ev(("X", method, h, tolv, form) if inside and nominal_ends else None)
        t.state(("X", method, h, tolv, form))
        try:
            p = make(name, method, h_us, tolv).propagate(at(us))
            t.trans()
        except LIBERR as e:
            t.fail(f"KeplerNum/{method}/propagate/raises-{type(e).__name__}", "propagate returns a state", c, "state", repr(e)[:300], f"{name} h={h}s {form}")
            continue
        if us_of(p.date) != us:
            t.fail(f"KeplerNum/{method}/propagate/date", "propagate(t) returns a state dated t", c, us, us_of(p.date))
            continue
        judge(us, A(p), "propagate", c)


# ---------------------------------------------------------------------------
# history part: one propagator object re-used with changed settings

SETTINGS = [  # (method, step [s], tol, bodies, frame)
    ("euler", 60, None, "earth", "EME2000"),
    ("rk4", 60, None, "earth", "EME2000"),
    ("rkf54", 60, None, "earth", "EME2000"),
    ("dopri54", 60, None, "earth", "EME2000"),
    ("rk4", 120, None, "earth", "EME2000"),
    ("dopri54", 120, 1e-1, "earth", "EME2000"),
    ("rkf54", 60, 1e-5, "earth", "EME2000"),
    ("rk4", 60, None, "none", "EME2000"),
    ("rk4", 60, None, "earth", "TEME"),
]
REUSE_T = 1200  # s, on every grid


def _configure(prop, setting):
    from datetime import timedelta

    method, h, tol, bodies, frame = setting
    prop.method = method
    prop.step = timedelta(seconds=h)
    prop.tol = 1e-3 if tol is None else tol
    prop.bodies = [_G["earth"]] if bodies == "earth" else []
    prop.frame = frame


def check_reuse(case, t):
    """case["seq"] = indices into SETTINGS applied one after the other to ONE KeplerNum object bound to ONE orbit; after each change
    the orbit is propagated (alternately through propagate() and iter()) and must give, bit for bit, what a brand-new propagator
    built with these settings gives - and, for the fixed-step methods, the node of the textbook scheme."""
    from datetime import timedelta
    from beyond.orbits import Orbit
    from beyond.propagators.keplernum import KeplerNum
    from mc.ref import rk

    name, seq = case["orbit"], case["seq"]
    mu = _G["mu"]
    g = geom(name)
    y0 = y0_of(name)
    key = ("H", name, tuple(seq))
    t.ev(key)
    t.state(key)
    shared = KeplerNum(timedelta(seconds=SETTINGS[seq[0]][1]), _G["earth"], method=SETTINGS[seq[0]][0])
    orb = Orbit(y0, _G["epoch"], "cartesian", "EME2000", shared)
    c = dict(case, part="reuse1")
    for k, idx in enumerate(seq):
        setting = SETTINGS[idx]
        method, h, tol, bodies, frame = setting
        _configure(shared, setting)
        kw = {} if tol is None else {"tol": tol}
        fresh_prop = KeplerNum(timedelta(seconds=h), [_G["earth"]] if bodies == "earth" else [], method=method, frame=frame, **kw)
        fresh = Orbit(y0, _G["epoch"], "cartesian", "EME2000", fresh_prop)
        via = "propagate" if k % 2 == 0 else "iter"
        try:
            if via == "propagate":
                a, b = orb.propagate(at(REUSE_T * 10**6)), fresh.propagate(at(REUSE_T * 10**6))
            else:
                a, b = list(orb.iter(stop=at(REUSE_T * 10**6)))[-1], list(fresh.iter(stop=at(REUSE_T * 10**6)))[-1]
            t.trans(2)
        except LIBERR as e:
            t.fail(f"KeplerNum/reused-propagator/raises-{type(e).__name__}", "a propagator object can be re-used after its settings were changed", c, "state", repr(e)[:300],
                   f"sequence {[SETTINGS[i][:3] for i in seq]} step {k}")
            return
        ya, yb = A(a), A(b)
        same = us_of(a.date) == us_of(b.date) and a.frame.name == b.frame.name and np.array_equal(ya, yb)
        t.outcome(("reuse", method, via))
        if not same:
            d = float(np.linalg.norm(ya[:3] - yb[:3]))
            t.fail("KeplerNum/reused-propagator/differs-from-fresh-propagator",
                   "the result is a function of the current settings (method, step, tol, bodies, frame), not of what the object did before", c,
                   [float(x) for x in yb], [float(x) for x in ya],
                   f"{name}: after {[SETTINGS[i][:3] for i in seq[:k]]} the object set to {setting} gives via {via} a state {d:.4e} m from a fresh propagator ({a.frame.name}, {us_of(a.date)*1e-6} s)")
            return
        t.margin("H: re-used propagator vs fresh propagator (bit-identical expected) / 1e-9 m", float(np.max(np.abs(ya - yb))), 1e-9)
        if method in ORDER and bodies == "earth" and frame == "EME2000":
            n = REUSE_T // h
            yr = rk.march(rk.TABLEAUX[method], rk.two_body_rhs(mu), 0.0, y0, float(h), n)[-1][1]
            d = float(np.linalg.norm(ya[:3] - yr[:3]))
            if not t.margin("H: re-used propagator vs textbook scheme / round-off bound", d, roundoff_tol(g, n, REUSE_T)):
                t.fail(f"KeplerNum/{method}/reused-propagator-vs-textbook-scheme", "fixed-step march equals the textbook scheme on the same grid", c,
                       [float(x) for x in yr], [float(x) for x in ya], f"{name}: sequence {[SETTINGS[i][:3] for i in seq[:k+1]]}: {d:.3e} m")
                return


# ---------------------------------------------------------------------------
# argument forms of the constructor: bodies as one body, a list, a tuple (one and two bodies)


def check_constructor_forms(case, t):
    from datetime import timedelta
    from beyond.orbits import Orbit
    from beyond.propagators.keplernum import KeplerNum
    from beyond.env.solarsystem import get_body

    name = case["orbit"]
    only = case.get("only")
    y0 = y0_of(name)
    earth, moon = _G["earth"], get_body("Moon")
    forms = {
        "1/list": lambda: [earth], "1/single": lambda: earth, "1/tuple": lambda: (earth,),
        "2/list": lambda: [earth, moon], "2/tuple": lambda: (earth, moon),
    }
    ref = {}
    for method in ("rk4", "dopri54"):
        for fname, mk in forms.items():
            key = f"{method}/{fname}"
            if only and only not in (key, f"{method}/{fname[0]}/list"):
                continue
            t.ev(("K", name, key))
            t.state(("K", name, key))
            c = dict(part="ctor", orbit=name, method=method, h=60, only=key)
            try:
                orb = Orbit(y0, _G["epoch"], "cartesian", "EME2000", KeplerNum(timedelta(seconds=60), mk(), method=method))
                p = A(orb.propagate(at(1200 * 10**6)))
                s2 = A(list(orb.iter(stop=at(600 * 10**6)))[-1])
                t.trans(2)
            except LIBERR as e:
                t.fail(f"KeplerNum/constructor/bodies-as-{fname.split('/')[1]}/raises-{type(e).__name__}",
                       "bodies may be given as one body, a list or a tuple (documented): the propagator built from them propagates", c, "states", repr(e)[:300],
                       f"KeplerNum(step, bodies={fname}, method={method}): {type(e).__name__}: {str(e)[:150]}")
                continue
            got = np.concatenate([p, s2])
            base = ref.setdefault((method, fname[0]), got) if fname.endswith("list") else ref.get((method, fname[0]))
            t.outcome(("ctor", fname))
            if base is not None and not np.array_equal(got, base):
                t.fail(f"KeplerNum/constructor/bodies-as-{fname.split('/')[1]}/differs-from-list-form",
                       "the form in which the bodies are given does not change the result", c, [float(x) for x in base], [float(x) for x in got],
                       f"KeplerNum(step, bodies={fname}, method={method}) differs from the list form by {float(np.max(np.abs(got - base))):.3e}")
