#!/venv/bin/python
"""Confirm a seeded defect and run our checks against it.

usage: run_seed.py <seed_dir> [--tier quick] [--checks C20,C02] [--no-tests]

<seed_dir> contains patch.diff, demo.py, meta.json (as delivered by a seeding sub-agent or kept under
/verif/seeded/<id>/).  Steps, all in a scratch git worktree of /repo under /tmp/mut (removed afterwards):
  1. demo.py on the pristine tree must exit 0
  2. git apply patch.diff
  3. the pinned test suite must still pass (tools/run_baseline.py)
  4. demo.py on the mutated tree must exit != 0
  5. VERIF_REPO=<worktree> ./check <ID> --tier <tier>  for each requested check; reports DETECTED / MISSED
Prints a JSON summary line at the end (used to fill meta.json 'verif_result').
"""
import json, os, shutil, subprocess, sys, time

HERE = os.path.dirname(os.path.dirname(os.path.abspath(__file__)))
PY = "/venv/bin/python"


def sh(cmd, **kw):
    return subprocess.run(cmd, capture_output=True, text=True, **kw)


def main():
    seed = os.path.abspath(sys.argv[1])
    tier = sys.argv[sys.argv.index("--tier") + 1] if "--tier" in sys.argv else "quick"
    meta = json.load(open(os.path.join(seed, "meta.json")))
    checks = (sys.argv[sys.argv.index("--checks") + 1].split(",") if "--checks" in sys.argv else [meta["property"]])
    wt = "/tmp/mut/" + os.path.basename(seed.rstrip("/")) + "_%d" % os.getpid()
    os.makedirs("/tmp/mut", exist_ok=True)
    r = sh(["git", "-C", "/repo", "worktree", "add", "-q", "--detach", wt, "HEAD"])
    assert r.returncode == 0, r.stderr
    res = dict(seed=os.path.basename(seed), property=meta["property"], tier=tier)
    try:
        env = dict(os.environ, PYTHONPATH=wt, PYTHONDONTWRITEBYTECODE="1")
        d0 = sh([PY, os.path.join(seed, "demo.py")], cwd=wt, env=env, timeout=900)
        res["demo_pristine_rc"] = d0.returncode
        a = sh(["git", "-C", wt, "apply", os.path.join(seed, "patch.diff")])
        res["apply_rc"] = a.returncode
        if a.returncode:
            res["apply_err"] = a.stderr[-500:]
            print(json.dumps(res))
            return 2
        if "--no-tests" not in sys.argv:
            b = sh([PY, os.path.join(HERE, "tools", "run_baseline.py"), wt, "-n", "4"], timeout=3600)
            res["tests_rc"] = b.returncode
            res["tests"] = b.stdout.strip().splitlines()[-1] if b.returncode == 0 else b.stdout[-800:]
        d1 = sh([PY, os.path.join(seed, "demo.py")], cwd=wt, env=env, timeout=900)
        res["demo_mutated_rc"] = d1.returncode
        res["demo_mutated_out"] = (d1.stdout + d1.stderr)[-400:]
        for pid in checks:
            t0 = time.time()
            c = sh([os.path.join(HERE, "check"), pid, "--tier", tier], cwd=HERE, env=dict(os.environ, VERIF_REPO=wt, VERIF_EVIDENCE_DIR=wt + "/.evidence"), timeout=7200)
            viol = [l for l in c.stdout.splitlines() if l.startswith("VIOLATION")]
            res[pid] = dict(rc=c.returncode, detected=bool(viol) and c.returncode == 1, wall=round(time.time() - t0, 1),
                            violations=[v[:400] for v in viol[:6]], err=c.stderr[-600:] if c.returncode == 2 else "")
        ok = res["demo_pristine_rc"] == 0 and res.get("tests_rc", 0) == 0 and res["demo_mutated_rc"] != 0
        res["seed_confirmed"] = ok
    finally:
        sh(["git", "-C", "/repo", "worktree", "remove", "--force", wt])
        shutil.rmtree(wt, ignore_errors=True)
        # evidence files were rewritten against the scratch tree: not kept
    print(json.dumps(res, indent=1))
    if "--keep" in sys.argv and res.get("seed_confirmed"):
        # keep the confirmed seed under /verif/seeded/<id>/ with what we ran and what our checks said
        dst = os.path.join(HERE, "seeded", os.path.basename(seed.rstrip("/")))
        os.makedirs(dst, exist_ok=True)
        for fn in ("patch.diff", "demo.py"):
            if os.path.realpath(seed) != os.path.realpath(dst):
                shutil.copy(os.path.join(seed, fn), os.path.join(dst, fn))
        meta = dict(meta)
        if "tests" not in res and "confirmed_by_us" in meta:
            res["tests"] = meta["confirmed_by_us"].get("pinned_test_suite_on_mutated")
        meta["confirmed_by_us"] = dict(
            demo_on_pristine_rc=res["demo_pristine_rc"], demo_on_mutated_rc=res["demo_mutated_rc"],
            pinned_test_suite_on_mutated=res.get("tests"), ran="tools/run_seed.py (scratch git worktree of /repo HEAD, patch applied with git apply)",
            repo_head=sh(["git", "-C", "/repo", "rev-parse", "--short", "HEAD"]).stdout.strip(),
        )
        runs = meta.setdefault("verif_runs", [])
        runs.append({k: v for k, v in res.items() if k not in ("demo_mutated_out",)})
        old = os.path.join(dst, "meta.json")
        if os.path.exists(old):
            runs[:0] = json.load(open(old)).get("verif_runs", [])
        json.dump(meta, open(old, "w"), indent=1)
    return 0


if __name__ == "__main__":
    sys.exit(main())
