#!/venv/bin/python
"""Regenerates the 'measured sizes' table of DESIGN.md §10 (between markers) from /verif/evidence/*.json."""
import glob, json, os
HERE = os.path.dirname(os.path.dirname(os.path.abspath(__file__)))
rows = []
for f in sorted(glob.glob(os.path.join(HERE, "evidence", "C*.json"))):
    e = json.load(open(f)); c = e["coverage"]
    cov = c.get("anchored_code_line_coverage", {})
    st = sum(v["statements"] for v in cov.values()); ex = sum(v["executed"] for v in cov.values())
    rows.append((e["property_id"], e["tier"], c["units"], c["states"], c["transitions"], c["evaluations"], c["distinct_observed_outcomes"],
                 sum(c.get("excluded_by_quantifier", {}).values()), f"{ex}/{st}" if st else "-", len(c.get("known_findings_observed", [])), round(e["wall_s"])))
out = ["| property | tier | units | states | transitions (real calls) | evaluations | distinct outcomes | excluded by quantifier | anchored statements executed | open findings re-observed | wall s |",
       "|---|---|---|---|---|---|---|---|---|---|---|"]
for r in rows:
    out.append("| " + " | ".join(str(x) for x in r) + " |")
table = "\n".join(out) + "\n"
p = os.path.join(HERE, "DESIGN.md"); s = open(p).read()
a, b = "<!-- SIZES-BEGIN -->", "<!-- SIZES-END -->"
assert a in s and b in s
s = s[: s.index(a) + len(a)] + "\n" + table + s[s.index(b):]
open(p, "w").write(s)
print("sizes table updated")
