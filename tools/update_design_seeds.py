#!/venv/bin/python
"""Regenerates DESIGN.md §12 (between the markers) from /verif/seeded/*/meta.json."""
import os, re, subprocess
HERE = os.path.dirname(os.path.dirname(os.path.abspath(__file__)))
table = subprocess.run(["/venv/bin/python", os.path.join(HERE, "tools", "seed_table.py")], capture_output=True, text=True).stdout
p = os.path.join(HERE, "DESIGN.md")
s = open(p).read()
a, b = "<!-- SEED-TABLE-BEGIN -->", "<!-- SEED-TABLE-END -->"
assert a in s and b in s
s = s[: s.index(a) + len(a)] + "\n" + table + s[s.index(b):]
open(p, "w").write(s)
print("DESIGN.md §12 table updated")
