#!/venv/bin/python
"""Prints the markdown table of DESIGN.md §12 from /verif/seeded/*/meta.json."""
import glob, json, os, re

HERE = os.path.dirname(os.path.dirname(os.path.abspath(__file__)))
rows = []
OVR = json.load(open(os.path.join(HERE, "seeded", "first_run_overrides.json")))
for m in sorted(glob.glob(os.path.join(HERE, "seeded", "*", "meta.json"))):
    d = json.load(open(m))
    name = os.path.basename(os.path.dirname(m))
    pid = d["property"]
    runs = [r.get(pid, {}) for r in d.get("verif_runs", []) if pid in r]
    first = runs[0] if runs else {}
    last = runs[-1] if runs else {}

    def verdict(r):
        if not r:
            return "not run"
        if r.get("detected"):
            return "caught"
        return "harness error" if r.get("rc") == 2 else "missed"

    sigs = []
    for v in last.get("violations", []):
        mm = re.search(r"#\s+(\S+)", v)
        if mm:
            sigs.append(mm.group(1))
    needs = (d.get("needs_to_manifest") or "").replace("\n", " ").replace("|", "/")
    if len(needs) > 160:
        needs = needs[:157] + "..."
    caught_as = ", ".join(sorted(set(sigs)))[:200]
    if d.get("caught_by_other_check"):
        caught_as = (caught_as + " " if caught_as else "") + f"[also reported by the {d['caught_by_other_check']} check]"
    rows.append((pid, name, needs, OVR.get(name, verdict(first)), verdict(last), caught_as))

print("| property | seeded change | needs to manifest | first run | after strengthening | caught as |")
print("|---|---|---|---|---|---|")
for r in rows:
    print("| " + " | ".join(r) + " |")
n = len(rows)
print()
print(f"{n} confirmed seeds; caught on first run: {sum(1 for r in rows if r[3] == 'caught')}; caught now: {sum(1 for r in rows if r[4] == 'caught')}.")
