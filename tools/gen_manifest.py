#!/venv/bin/python
"""Regenerates /verif/MANIFEST.json from the harness modules present in props/.

A property is claimed iff props/cNN_*.py exists and exposes CLAIM (dict with
'text', 'note', 'technique').  Every other property of properties.jsonl is
listed under not_applicable with the reason recorded in NOT_CLAIMED below.
"""
import importlib
import json
import os
import sys

HERE = os.path.dirname(os.path.dirname(os.path.abspath(__file__)))
sys.path.insert(0, HERE)

NOT_CLAIMED = {}

props = [json.loads(l) for l in open(os.path.join(HERE, "properties.jsonl"))]
checks, na = [], []
for p in props:
    pid = p["id"]
    mod = None
    for fn in sorted(os.listdir(os.path.join(HERE, "props"))):
        if fn.lower().startswith(pid.lower() + "_") and fn.endswith(".py"):
            mod = importlib.import_module("props." + fn[:-3])
    ready = open(os.path.join(HERE, "tools", "ready.txt")).read().split()
    if mod is None or not hasattr(mod, "CLAIM") or pid not in ready:
        na.append(dict(property_id=pid, reason=NOT_CLAIMED.get(pid, "harness not built yet (bounded exhaustive exploration is applicable, see DESIGN.md §4 " + pid + ")")))
        continue
    c = mod.CLAIM
    checks.append(
        dict(
            property_id=pid,
            quick_cmd=f"./check {pid} --tier quick",
            thorough_cmd=f"./check {pid} --tier thorough",
            evidence_file=f"/verif/evidence/{pid}.json",
            replay_cmd_template=f"./check {pid} --replay {{path}}",
            engine="mc-engine",
            level_claimed=dict(category="model_checking", text=c["text"], design_ref="DESIGN.md §4 " + pid),
            level_note=c["note"],
            technique=c["technique"],
        )
    )

manifest = dict(
    version=1,
    setup_cmd="/venv/bin/python -m compileall -q mc props tools && /venv/bin/python tools/selftest.py",
    hooks=dict(
        guard="BEYOND_VERIF",
        enable="none needed: the checks import /repo's working tree directly (sys.path) and reach every seam from outside; BEYOND_VERIF=1 is exported by ./check but no guarded code exists in /repo",
        baseline_off_cmd="cd /repo && env -u BEYOND_VERIF /venv/bin/python -m pytest -ra -q -p no:cacheprovider --timeout=900 --continue-on-collection-errors",
        source_commits=[],
        add_only=True,
    ),
    engines=[
        dict(
            name="mc-engine",
            path="/verif/mc",
            serves_properties=[c["property_id"] for c in checks],
            kind_free_text="hand-written bounded-exhaustive explorer for Python: E1 explicit-state search over operation histories replayed on fresh objects of the real classes (canonical-state deduplication), E2 exhaustive products / deviation-bounded products over finite input alphabets, each execution run on the real library and compared with an independent reference model; spawned worker pool, replay files, known-findings matching",
        )
    ],
    checks=checks,
    notes="See DESIGN.md. ./check <ID> --tier quick|thorough; violations are written to replays/<ID>/*.json and replayed twice in fresh processes before being reported. known_findings.json lists recorded genuine defects (status open) and repaired ones (status fixed).",
    not_applicable=na,
)
with open(os.path.join(HERE, "MANIFEST.json"), "w") as f:
    json.dump(manifest, f, indent=1)
    f.write("\n")
print("claimed:", [c["property_id"] for c in checks])
print("not claimed:", [x["property_id"] for x in na])
