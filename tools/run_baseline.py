#!/venv/bin/python
"""Runs the repository's pinned test suite (guard OFF) on a tree and compares with BASELINE.json.
usage: run_baseline.py [repo_dir]   exit 0 iff every stable_pass test still passes."""
import json, os, subprocess, sys, tempfile
import xml.etree.ElementTree as ET
repo = sys.argv[1] if len(sys.argv) > 1 else "/repo"
base = json.load(open("/root/.vp/BASELINE.json"))
fd, xml = tempfile.mkstemp(suffix=".xml"); os.close(fd)
env = {k: v for k, v in os.environ.items() if k != "BEYOND_VERIF"}
env["PYTHONDONTWRITEBYTECODE"] = "1"
if os.path.realpath(repo) != "/repo":
    env["PYTHONPATH"] = repo
cmd = ["/venv/bin/python", "-m", "pytest", "-ra", "-q", "-p", "no:cacheprovider", "-p", "no:cov", "-o", "addopts=", "--doctest-modules", "beyond/", "tests/", "--timeout=900",
       "--continue-on-collection-errors", f"--junitxml={xml}"]
if "-n" in sys.argv:
    cmd += ["-n", sys.argv[sys.argv.index("-n") + 1]]
r = subprocess.run(cmd, cwd=repo, env=env, capture_output=True, text=True)
passed = set()
for tc in ET.parse(xml).getroot().iter("testcase"):
    if not any(ch.tag in ("failure", "error", "skipped") for ch in tc):
        passed.add(f"{tc.get('classname')}::{tc.get('name')}")
os.unlink(xml)
missing = sorted(set(base["stable_pass"]) - passed)
print(r.stdout.strip().splitlines()[-1])
print(f"stable_pass {len(base['stable_pass'])}, passing now {len(passed)}, baseline tests no longer passing: {len(missing)}")
for m in missing[:40]:
    print("  LOST", m)
sys.exit(1 if missing else 0)
