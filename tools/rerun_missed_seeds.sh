#!/bin/sh
# re-run (without the pinned suite, already confirmed) every stored seed whose last recorded run did not detect it
cd /verif
for d in seeded/*/; do
  n=$(basename $d)
  last=$(/venv/bin/python -c "
import json,sys
m=json.load(open('$d/meta.json')); r=m.get('verif_runs',[])
pid=m['property']
print('detected' if r and r[-1].get(pid,{}).get('detected') else 'missed')")
  if [ "$last" = "missed" ]; then
    echo "== $n"; /venv/bin/python tools/run_seed.py $d --keep --no-tests 2>&1 | grep "\"rc\"\|detected" | tr -d '\n'; echo
  fi
done
