#!/venv/bin/python
"""Setup-time self tests: every reference model under mc/ref exposes selftest();
every harness must import against /repo. Exit non-zero on failure."""
import importlib, os, sys, warnings
warnings.filterwarnings("ignore")
HERE = os.path.dirname(os.path.dirname(os.path.abspath(__file__)))
sys.path.insert(0, HERE)
from mc import engine
engine.bind_repo()
n = 0
refdir = os.path.join(HERE, "mc", "ref")
if os.path.isdir(refdir):
    for fn in sorted(os.listdir(refdir)):
        if fn.endswith(".py") and fn != "__init__.py":
            m = importlib.import_module("mc.ref." + fn[:-3])
            if hasattr(m, "selftest"):
                m.selftest()
                n += 1
for fn in sorted(os.listdir(os.path.join(HERE, "props"))):
    if fn.endswith(".py") and fn != "__init__.py":
        importlib.import_module("props." + fn[:-3])
print(f"selftest ok ({n} reference models)")
