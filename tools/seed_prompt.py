#!/venv/bin/python
"""Prints the prompt for a seeded-defect sub-agent: property text + scratch worktree only (nothing from /verif)."""
import json, sys
pid, wt, n = sys.argv[1], sys.argv[2], (sys.argv[3] if len(sys.argv) > 3 else "2")
hint = sys.argv[4] if len(sys.argv) > 4 else ""
p = [json.loads(l) for l in open("/verif/properties.jsonl") if json.loads(l)["id"] == pid][0]
print(f"""You are testing how well an (undisclosed) verification effort detects regressions in the Python flight-dynamics library galactics/beyond. You have your own scratch git worktree of the library at {wt} (package directory {wt}/beyond, tests in {wt}/tests). Work ONLY inside {wt}. Do not read or touch /verif or /repo.

PROPERTY ({pid}: {p['title']})
Statement: {p['statement']}
Holds for: {p['quantifier']['text']}
Code it is anchored in: {', '.join(p['anchors']['files'])}
Mechanisms: {'; '.join(m['name'] + ' (' + m['where'] + ')' for m in p['anchors']['mechanism'])}

TASK: produce {n} different, independent, realistic changes ("seeded defects") to the library source under {wt}/beyond, each of which BREAKS this property while the library still imports and the EXISTING test suite still passes exactly as before. Each change should look like a plausible programming slip or well-meant refactoring/optimisation (wrong index or sign in one branch, stale cache/shared mutable state, off-by-one at an edge, a shortcut valid only for the common case, two sites that each look fine alone), and should need something SPECIFIC to manifest — a particular input region or branch, an unusual but legal input, a multi-step sequence of operations, a particular order of registrations/calls — not something any ordinary use would expose at once. Each change must be small (a few lines). Make the {n} changes hit different mechanisms/clauses of the property. {hint}

How to run the existing tests in your worktree (unchanged tree: 306 passed, 11 failed — those 11 fail on the pristine tree too because of a numpy incompatibility; the set of 306 passing tests must be unchanged by your edit, check by comparing the list of failed tests):
  cd {wt} && PYTHONPATH={wt} /venv/bin/python -m pytest -q -p no:cacheprovider -p no:cov -o addopts= --doctest-modules beyond/ tests/ -n 4 2>&1 | tail -15
Run python snippets against your worktree with: cd {wt} && PYTHONPATH={wt} /venv/bin/python your_script.py  (check `import beyond; print(beyond.__file__)` points into {wt}).

DELIVERABLES — for change k (k = 1..{n}) create directory {wt}/seed/{pid}_<short-name>/ containing:
  patch.diff   — `git diff` of ONLY that change against the worktree HEAD (apply-able with `git apply` on a clean checkout; touching only files under beyond/)
  demo.py      — a small stand-alone program using only the public API of beyond (+numpy), that exits 0 and prints PASS on the pristine tree, and exits 1 and prints FAIL (with what was observed vs expected) when the change is applied. It must demonstrate a violation of the PROPERTY as stated above (not merely a difference in behaviour).
  meta.json    — {{"property": "{pid}", "title": "...", "what_changed": "...", "needs_to_manifest": "...", "tests_run": "<command> -> <summary line>", "demo_pristine": "<output>", "demo_mutated": "<output>"}}
Develop one change at a time: edit, run the full test suite (must still be 306 passed / same 11 failed), run demo.py (must FAIL), save the diff, then `git checkout -- beyond` to restore the pristine tree, run demo.py again (must PASS), and go on to the next change. Leave the worktree clean (pristine source) at the end, with only the seed/ directory added. Your final message: list the seed directories and one line each on what the change is and what it needs to manifest.""")
